------------------------------- MODULE ACApi -------------------------------
(***************************************************************************)
(* The facade AhoCorasick / AhoCorasickBuilder: which search requests are  *)
(* rejected (C13), what a built searcher reports about itself (C20).       *)
(*                                                                         *)
(* Outcome is a total function of the CONFIGURATION only: by construction  *)
(* it has no argument for the automaton kind, the patterns (beyond "is     *)
(* there an empty pattern") or the haystack.                               *)
(***************************************************************************)
EXTENDS ACBase

MatchKinds == {"std", "lf", "ll"}
StartKinds == {"unanchored", "anchored", "both"}

(* the 21 public search entry points of AhoCorasick *)
Infallible == {"is_match", "find", "find_overlapping", "find_iter",
               "find_overlapping_iter", "replace_all", "replace_all_bytes",
               "replace_all_with", "replace_all_with_bytes", "stream_find_iter"}
Fallible == {"try_find", "try_find_overlapping", "try_find_iter",
             "try_find_overlapping_iter", "try_replace_all", "try_replace_all_bytes",
             "try_replace_all_with", "try_replace_all_with_bytes",
             "try_stream_find_iter", "try_stream_replace_all",
             "try_stream_replace_all_with"}
Apis == Infallible \cup Fallible

(* entry points that take an Input (and hence a requested anchoring mode);  *)
(* all others search unanchored                                             *)
TakesInput == {"is_match", "find", "find_overlapping", "find_iter",
               "find_overlapping_iter", "try_find", "try_find_overlapping",
               "try_find_iter", "try_find_overlapping_iter"}
IsOverlapping(a) == a \in {"find_overlapping", "find_overlapping_iter",
                           "try_find_overlapping", "try_find_overlapping_iter"}
IsOverlappingIter(a) == a \in {"find_overlapping_iter", "try_find_overlapping_iter"}
IsStream(a) == a \in {"stream_find_iter", "try_stream_find_iter",
                      "try_stream_replace_all", "try_stream_replace_all_with"}

Covers(sk, an) == sk = "both" \/ (sk = "anchored" /\ an) \/ (sk = "unanchored" /\ ~an)

(* C13 (a)-(d) *)
Rejected(api, mk, sk, an, hasEmpty) ==
    LET eff == IF api \in TakesInput THEN an ELSE FALSE IN
    \/ ~Covers(sk, eff)                                          \* (a)
    \/ (IsOverlapping(api) \/ IsStream(api)) /\ mk # "std"       \* (b)
    \/ IsOverlappingIter(api) /\ eff                             \* (c)
    \/ IsStream(api) /\ hasEmpty                                 \* (d)

Outcome(api, mk, sk, an, hasEmpty) ==
    IF Rejected(api, mk, sk, an, hasEmpty)
    THEN (IF api \in Fallible THEN "err" ELSE "panic")
    ELSE "ok"

(* the whole finite configuration space *)
Cells == Apis \X MatchKinds \X StartKinds \X BOOLEAN \X BOOLEAN

(* ------------------------- building and metadata (C20) ------------------ *)
(* kind: requested kind or "auto"; returns the kind that must be reported   *)
KindOK(requested, reported) ==
    IF requested = "auto" THEN reported \in {"nc", "c", "dfa"} ELSE reported = requested

(* what build_auto does (not fixed by C20: a mismatch here is drift only)   *)
AutoKind(npat, sk) == IF sk # "both" /\ npat <= 100 THEN "dfa" ELSE "c"

(* lens: the lengths of the supplied patterns, in order *)
MetaOK(lens, mk, sk, rep) ==
    /\ rep.npat = Len(lens)
    /\ Len(lens) > 0 => /\ rep.minlen = MinOf({lens[k] : k \in 1..Len(lens)})
                        /\ rep.maxlen = MaxOf({lens[k] : k \in 1..Len(lens)})
    /\ rep.mkrep = mk /\ rep.skrep = sk

=============================================================================
