SPECIFICATION Spec
INVARIANTS PrefixInv
CHECK_DEADLOCK FALSE
