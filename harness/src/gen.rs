// Generators: enumerated families and seeded random shapes.
use crate::common::Pats;
use rand::{rngs::StdRng, Rng, SeedableRng};

pub fn rng(seed: u64, salt: u64) -> StdRng {
    StdRng::seed_from_u64(seed.wrapping_mul(0x9E3779B97F4A7C15) ^ salt)
}

/// all strings over `alpha` with length 0..=maxlen, by length then lexicographic
pub fn all_strings(alpha: &[u8], maxlen: usize) -> Vec<Vec<u8>> {
    let mut out: Vec<Vec<u8>> = vec![vec![]];
    let mut prev: Vec<Vec<u8>> = vec![vec![]];
    for _ in 0..maxlen {
        let mut next = vec![];
        for p in &prev {
            for &a in alpha {
                let mut q = p.clone();
                q.push(a);
                next.push(q);
            }
        }
        out.extend(next.iter().cloned());
        prev = next;
    }
    out
}

/// F(K, L): all ordered lists of 0..=K patterns of length 0..=L over alpha.
pub fn family(alpha: &[u8], k: usize, l: usize) -> Vec<Pats> {
    let strs = all_strings(alpha, l);
    let mut out: Vec<Pats> = vec![vec![]];
    let mut prev: Vec<Pats> = vec![vec![]];
    for _ in 0..k {
        let mut next = vec![];
        for p in &prev {
            for s in &strs {
                let mut q = p.clone();
                q.push(s.clone());
                next.push(q);
            }
        }
        out.extend(next.iter().cloned());
        prev = next;
    }
    out
}

/// byte pools that exercise folding boundaries and non-ASCII bytes
pub const POOLS: [&[u8]; 10] = [
    // bytes at the ends and in the middle of the byte range (class boundaries, signedness)
    &[0x00, 0x01, 0x02],
    &[0xFD, 0xFE, 0xFF],
    &[0x7E, 0x7F, 0x80, 0x81],
    b"ab",
    b"abc",
    b"aAbB",
    b"aA@[`{zZ",
    &[0x00, 0x61, 0x80, 0xFF],
    &[0xC3, 0xA9, 0x61, 0xE2, 0x82, 0xAC],
    b"abcdefgh",
];

/// A random pattern list rich in prefixes / suffixes / infixes / duplicates /
/// case variants / the empty pattern.
pub fn random_pats(r: &mut StdRng, maxn: usize, maxlen: usize) -> Pats {
    let pool = POOLS[r.gen_range(0..POOLS.len())];
    random_pats_over(r, pool, maxn, maxlen, true)
}

pub fn random_pats_over(
    r: &mut StdRng,
    pool: &[u8],
    maxn: usize,
    maxlen: usize,
    allow_empty: bool,
) -> Pats {
    let n = r.gen_range(1..=maxn);
    let mut pats: Pats = vec![];
    for _ in 0..n {
        let shape = r.gen_range(0..10);
        let p: Vec<u8> = if pats.is_empty() || shape < 4 {
            let len = if allow_empty && r.gen_range(0..12) == 0 {
                0
            } else {
                r.gen_range(1..=maxlen)
            };
            (0..len).map(|_| pool[r.gen_range(0..pool.len())]).collect()
        } else {
            let base = pats[r.gen_range(0..pats.len())].clone();
            match shape {
                4 => {
                    // proper prefix
                    let l = if base.is_empty() { 0 } else { r.gen_range(0..base.len()) };
                    base[..l].to_vec()
                }
                5 => {
                    // suffix
                    let l = if base.is_empty() { 0 } else { r.gen_range(0..base.len()) };
                    base[base.len() - l..].to_vec()
                }
                6 => {
                    // infix
                    if base.len() < 2 {
                        base
                    } else {
                        let a = r.gen_range(0..base.len());
                        let b = r.gen_range(a..=base.len());
                        base[a..b].to_vec()
                    }
                }
                7 => base, // duplicate
                8 => {
                    // extension
                    let mut q = base;
                    let extra = r.gen_range(1..=2);
                    for _ in 0..extra {
                        if q.len() < maxlen {
                            q.push(pool[r.gen_range(0..pool.len())]);
                        }
                    }
                    q
                }
                _ => {
                    // case variant
                    base.iter()
                        .map(|&b| {
                            if r.gen_bool(0.5) {
                                if b.is_ascii_lowercase() {
                                    b.to_ascii_uppercase()
                                } else if b.is_ascii_uppercase() {
                                    b.to_ascii_lowercase()
                                } else {
                                    b
                                }
                            } else {
                                b
                            }
                        })
                        .collect()
                }
            }
        };
        if p.is_empty() && !allow_empty {
            continue;
        }
        pats.push(p);
    }
    if pats.is_empty() {
        pats.push(vec![pool[0]]);
    }
    pats
}

/// bytes used by the patterns, plus case variants, plus a filler
pub fn alphabet_of(pats: &Pats, ci: bool) -> Vec<u8> {
    let mut seen = [false; 256];
    for p in pats {
        for &b in p {
            seen[b as usize] = true;
            if ci {
                seen[b.to_ascii_lowercase() as usize] = true;
                seen[b.to_ascii_uppercase() as usize] = true;
            }
        }
    }
    let mut v: Vec<u8> = (0..=255u8).filter(|&b| seen[b as usize]).collect();
    if v.is_empty() {
        v.push(b'a');
    }
    v
}

/// A haystack that plants pattern occurrences (and near misses) among filler.
pub fn random_hay(r: &mut StdRng, pats: &Pats, ci: bool, maxlen: usize) -> Vec<u8> {
    let alpha = alphabet_of(pats, ci);
    let filler: u8 = *[b'_', b'z', 0x00, 0xFF, b'@', b'[']
        .iter()
        .find(|b| !alpha.contains(b))
        .unwrap_or(&b'_');
    let len = r.gen_range(0..=maxlen);
    let mut h: Vec<u8> = Vec::with_capacity(len + 8);
    while h.len() < len {
        match r.gen_range(0..10) {
            0..=3 if !pats.is_empty() => {
                let p = &pats[r.gen_range(0..pats.len())];
                let cut = if r.gen_range(0..4) == 0 && !p.is_empty() {
                    r.gen_range(0..p.len())
                } else {
                    p.len()
                };
                for &b in &p[..cut] {
                    let b = if ci && r.gen_bool(0.5) {
                        if b.is_ascii_lowercase() {
                            b.to_ascii_uppercase()
                        } else {
                            b.to_ascii_lowercase()
                        }
                    } else {
                        b
                    };
                    h.push(b);
                }
            }
            4 if !pats.is_empty() => {
                // a near miss: a whole pattern with one byte altered
                let p = &pats[r.gen_range(0..pats.len())];
                if p.len() >= 2 {
                    let k = r.gen_range(0..p.len());
                    let at = h.len();
                    h.extend_from_slice(p);
                    h[at + k] = alpha[r.gen_range(0..alpha.len())];
                } else {
                    h.push(alpha[r.gen_range(0..alpha.len())]);
                }
            }
            5 if !pats.is_empty() && r.gen_bool(0.5) => {
                // a near miss by insertion (a stray byte inside an occurrence) or by deletion
                let p = &pats[r.gen_range(0..pats.len())];
                if p.len() >= 2 {
                    let k = r.gen_range(1..p.len());
                    h.extend_from_slice(&p[..k]);
                    if r.gen_bool(0.6) {
                        // the stray byte is often the first byte of some pattern
                        let q = &pats[r.gen_range(0..pats.len())];
                        let b = if !q.is_empty() && r.gen_bool(0.7) { q[0] } else { alpha[r.gen_range(0..alpha.len())] };
                        h.push(b);
                        h.extend_from_slice(&p[k..]);
                    } else if k + 1 <= p.len() {
                        h.extend_from_slice(&p[k + 1..]);
                    }
                } else {
                    h.push(alpha[r.gen_range(0..alpha.len())]);
                }
            }
            4..=6 => h.push(alpha[r.gen_range(0..alpha.len())]),
            7 => {
                // neighbours of letters at the folding boundary
                let c = [b'@', b'[', b'`', b'{', 0x80, 0xC1, 0xE1];
                h.push(c[r.gen_range(0..c.len())]);
            }
            _ => h.push(filler),
        }
    }
    h.truncate(len);
    h
}

/// Haystacks built around pairs (p, q) of patterns where p is a proper prefix of q:
/// p, then a stray byte (a pattern's first byte / a byte no pattern uses / both), then the
/// rest of q. Whatever a searcher remembers of p (a state to resume from, a candidate)
/// must not be continued by the rest of q.
pub fn stale_hays(r: &mut StdRng, pats: &Pats, maxpairs: usize) -> Vec<Vec<u8>> {
    let filler = *[b'_', b'~', 0x01].iter().find(|b| !pats.iter().any(|q| q.contains(b))).unwrap_or(&b'_');
    let mut out = vec![];
    let mut pairs = 0;
    for p in pats.iter() {
        for q in pats.iter() {
            if !p.is_empty() && q.len() > p.len() && q[..p.len()] == p[..] {
                let first = pats[r.gen_range(0..pats.len())].first().copied().unwrap_or(filler);
                for (si, stray) in [vec![first], vec![q[0]], vec![filler], vec![q[0], filler]].iter().enumerate() {
                    let mut h = vec![filler; (si + pairs) % 3];
                    h.extend_from_slice(p);
                    h.extend_from_slice(stray);
                    h.extend_from_slice(&q[p.len()..]);
                    // with and without anything after it
                    out.push(h.clone());
                    h.extend(vec![filler; 2]);
                    out.push(h);
                }
                pairs += 1;
                if pairs >= maxpairs {
                    return out;
                }
            }
        }
    }
    out
}

/// all haystacks over alpha up to maxlen
pub fn all_hays(alpha: &[u8], maxlen: usize) -> Vec<Vec<u8>> {
    all_strings(alpha, maxlen)
}

/// all spans 0 <= s <= e <= n, plus s = e + 1 (the "done" inputs)
pub fn all_spans(n: usize) -> Vec<(usize, usize)> {
    let mut v = vec![];
    for s in 0..=n {
        for e in s..=n {
            v.push((s, e));
        }
    }
    for e in 0..n {
        v.push((e + 1, e));
    }
    v
}

pub fn random_span(r: &mut StdRng, n: usize) -> (usize, usize) {
    match r.gen_range(0..6) {
        0 | 1 => (0, n),
        2 if n > 0 => {
            let e = r.gen_range(0..n);
            (e + 1, e)
        }
        _ => {
            let s = r.gen_range(0..=n);
            let e = r.gen_range(s..=n);
            (s, e)
        }
    }
}
