---------------------------- MODULE ACAutomaton ----------------------------
(***************************************************************************)
(* The Aho-Corasick automaton exactly as nfa::noncontiguous::Compiler      *)
(* builds it (build_trie, fill_failure_transitions,                        *)
(* close_start_state_loop_for_leftmost, set_anchored_start_state), as a    *)
(* function of the pattern list.  The contiguous NFA and the DFA are       *)
(* re-encodings of the same automaton (the DFA with the failure walk       *)
(* pre-applied), so all three are bound to THIS module by product          *)
(* exploration (Prod.tla).                                                 *)
(*                                                                         *)
(* A state is the trie node it stands for, i.e. a prefix of an inserted    *)
(* pattern (a sequence of bytes), or DEAD.  P is always the list of        *)
(* patterns AFTER case folding (FoldAll) when the searcher is case         *)
(* insensitive, and input bytes are folded before they are fed (Feed).     *)
(***************************************************************************)
EXTENDS ACBase

DEAD == <<-1>>
Root == <<>>

IsPrefixOf(p, q) == Len(p) <= Len(q) /\ \A i \in 1..Len(p) : p[i] = q[i]

(* build_trie: under leftmost-first a pattern that has an EARLIER pattern  *)
(* as a prefix is never inserted (saw_match / continue 'PATTERNS).  The    *)
(* code checks `saw_match` only while consuming bytes, so an earlier       *)
(* pattern EQUAL to this one does not prune it (it is a duplicate: both    *)
(* ids are recorded on the same node).                                     *)
(* (If the earlier pattern j was itself pruned, the pattern that pruned it  *)
(* is an even earlier proper prefix of P[k], so no recursion is needed.)   *)
Pruned(P, K, k) ==
    K = "lf" /\ \E j \in 1..(k - 1) : IsPrefixOf(P[j], P[k]) /\ Len(P[j]) < Len(P[k])
Inserted(P, K) == {k \in 1..Len(P) : ~Pruned(P, K, k)}

(* Prepared form: pruned patterns replaced by a string no input can spell, *)
(* and leftmost-first then treated as leftmost-longest (pruning is the     *)
(* only place where the two differ in the automaton).  Semantically        *)
(* identical; it lets a caller that holds on to the prepared list avoid    *)
(* re-deriving the pruning at every step (used by Prod on big lists).      *)
Unspellable == <<-2>>
Prep(P, K) == [k \in 1..Len(P) |-> IF Pruned(P, K, k) THEN Unspellable ELSE P[k]]
PrepK(K) == IF K = "lf" THEN "ll" ELSE K

IsNode(P, K, t) == t = Root \/ \E k \in Inserted(P, K) : IsPrefixOf(t, P[k])
Nodes(P, K) == {Root} \cup UNION {{SubSeq(P[k], 1, n) : n \in 0..Len(P[k])} : k \in Inserted(P, K)}

(* patterns that end exactly at node t, in the order add_match appended them *)
Own(P, K, t) == {k \in Inserted(P, K) : P[k] = t}
RECURSIVE SortAsc(_)
SortAsc(S) == IF S = {} THEN <<>> ELSE LET m == MinOf(S) IN <<m>> \o SortAsc(S \ {m})
OwnSeq(P, K, t) == SortAsc(Own(P, K, t))

Leftmostish(K) == K # "std"
RootMatches(P, K) == Own(P, K, Root) # {}

Front(t) == SubSeq(t, 1, Len(t) - 1)
LastOf(t) == t[Len(t)]

(* fill_failure_transitions.  Walk is the loop                             *)
(*     while follow(fail, b) == FAIL { fail = states[fail].fail }          *)
(* on the trie whose start state has a self loop for every byte without a  *)
(* child and whose DEAD state loops to itself.                             *)
RECURSIVE Fail(_, _, _), Walk(_, _, _, _)
Walk(P, K, f, b) ==
    IF f = DEAD THEN DEAD
    ELSE IF IsNode(P, K, Append(f, b)) THEN Append(f, b)
    ELSE IF f = Root THEN Root
    ELSE Walk(P, K, Fail(P, K, f), b)
Fail(P, K, t) ==
    IF t = Root THEN Root
    ELSE IF Leftmostish(K) /\ Own(P, K, t) # {} THEN DEAD
    ELSE IF Len(t) = 1
         THEN (IF Leftmostish(K) /\ RootMatches(P, K) THEN DEAD ELSE Root)
         ELSE Walk(P, K, Fail(P, K, Front(t)), LastOf(t))

(* every failure link points to a strictly shallower state (C19) *)
Depth(t) == IF t = DEAD THEN 0 ELSE Len(t)

(* match list of a state: own patterns, then the failure target's list.    *)
(* (the start state's own list reaches every state of a standard automaton *)
(* through the chain exactly once)                                         *)
RECURSIVE M(_, _, _)
M(P, K, t) ==
    IF t = DEAD THEN <<>>
    ELSE OwnSeq(P, K, t) \o
         (IF t = Root \/ Fail(P, K, t) = DEAD THEN <<>> ELSE M(P, K, Fail(P, K, t)))

IsMatchState(P, K, t) == t # DEAD /\ M(P, K, t) # <<>>

(* next_state(Anchored::No, ..): goto if defined; at the start state the   *)
(* self loop (closed, i.e. DEAD, for leftmost automata whose start state   *)
(* matches); otherwise retry from the failure target.                      *)
RECURSIVE NextU(_, _, _, _)
NextU(P, K, t, b) ==
    IF t = DEAD THEN DEAD
    ELSE IF IsNode(P, K, Append(t, b)) THEN Append(t, b)
    ELSE IF t = Root THEN (IF Leftmostish(K) /\ RootMatches(P, K) THEN DEAD ELSE Root)
    ELSE NextU(P, K, Fail(P, K, t), b)

(* number of failure links next_state follows for this step (C19) *)
RECURSIVE FailSteps(_, _, _, _)
FailSteps(P, K, t, b) ==
    IF t = DEAD \/ t = Root \/ IsNode(P, K, Append(t, b)) THEN 0
    ELSE 1 + FailSteps(P, K, Fail(P, K, t), b)

(* next_state(Anchored::Yes, ..) from the anchored start state: no failure *)
(* links, a missing transition is DEAD.                                    *)
NextA(P, K, t, b) ==
    IF t # DEAD /\ IsNode(P, K, Append(t, b)) THEN Append(t, b) ELSE DEAD

Nxt(P, K, an, t, b) == IF an THEN NextA(P, K, t, b) ELSE NextU(P, K, t, b)

(* the byte as the automaton sees it *)
Feed(b, ci) == IF ci THEN Fold(b) ELSE b

(* get_match(aut, sid, index, at) *)
GetMatch(P, K, t, idx, at) ==
    LET k == M(P, K, t)[idx] IN <<k, at - Len(P[k]), at>>

(* Which anchoring modes a representation offers (start_state errors). *)
StartOK(sk, an) == sk = "both" \/ (sk = "anchored" /\ an) \/ (sk = "unanchored" /\ ~an)

(* Structural lemmas of the construction, checked by TLC (MC_Automaton):   *)
FailShortens(P, K) ==
    \A t \in Nodes(P, K) : t # Root => Depth(Fail(P, K, t)) < Depth(t)
FailIsSuffix(P, K) ==
    \A t \in Nodes(P, K) :
        LET f == Fail(P, K, t) IN
        f # DEAD => /\ f \in Nodes(P, K)
                    /\ SubSeq(t, Len(t) - Len(f) + 1, Len(t)) = f
NoDupInM(P, K) ==
    \A t \in Nodes(P, K) :
        LET m == M(P, K, t) IN \A i, j \in 1..Len(m) : i # j => m[i] # m[j]

=============================================================================
