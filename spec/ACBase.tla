------------------------------- MODULE ACBase -------------------------------
(***************************************************************************)
(* Declarative layer: what a match IS.  No automaton appears here.  These  *)
(* operators are the oracles every operational module and every recorded   *)
(* implementation behaviour is compared with.                              *)
(*                                                                         *)
(* Conventions                                                             *)
(*   - a byte is an integer 0..255; a haystack / pattern is a sequence     *)
(*   - offsets are 0-based as in the crate: h[i+1] is the byte at offset i *)
(*   - a span is s..e with 0 <= s, e <= Len(h), s <= e + 1                 *)
(*   - pattern ids are 1-based here (k = position in the list P);          *)
(*     the crate's PatternID is k-1                                        *)
(*   - a match is <<k, start, end>>, "no match" is None = <<>>             *)
(*   - K \in {"std","lf","ll"}  (Standard, LeftmostFirst, LeftmostLongest) *)
(*   - ci = ASCII case-insensitive, an = anchored                          *)
(***************************************************************************)
EXTENDS Integers, Sequences, FiniteSets

None == <<>>

MinOf(S) == CHOOSE x \in S : \A y \in S : x <= y
MaxOf(S) == CHOOSE x \in S : \A y \in S : y <= x

(* ASCII folding: exactly the 26 upper-case letters are mapped. *)
Fold(b) == IF b >= 65 /\ b <= 90 THEN b + 32 ELSE b
FoldSeq(p) == [i \in 1..Len(p) |-> Fold(p[i])]
FoldAll(P) == [k \in 1..Len(P) |-> FoldSeq(P[k])]
(* the other-case byte of an ASCII letter, the byte itself otherwise *)
OppCase(b) == IF b >= 65 /\ b <= 90 THEN b + 32
              ELSE IF b >= 97 /\ b <= 122 THEN b - 32 ELSE b
EqB(a, b, ci) == IF ci THEN Fold(a) = Fold(b) ELSE a = b

(* Pattern p occurs in h at offset i and ends at or before offset e. *)
OccursAt(p, h, i, e, ci) ==
    /\ i + Len(p) <= e
    /\ \A j \in 1..Len(p) : EqB(h[i + j], p[j], ci)

(* ids of patterns occurring at offset i (inside ..e) *)
PatsAt(P, h, i, e, ci) == {k \in 1..Len(P) : OccursAt(P[k], h, i, e, ci)}

(* ids of patterns with an occurrence that starts at or after s (exactly at *)
(* s when anchored) and ends exactly at offset t                            *)
EndsAt(P, h, s, t, ci, an) ==
    {k \in 1..Len(P) :
        LET n == Len(P[k]) IN
        /\ n <= t - s
        /\ (an => t - n = s)
        /\ \A j \in 1..n : EqB(h[t - n + j], P[k][j], ci)}

(* All occurrences <<k, start>> in the span. *)
Occ(P, h, s, e, ci, an) ==
    {o \in (1..Len(P)) \X (IF an THEN {s} ELSE s..e) :
        OccursAt(P[o[1]], h, o[2], e, ci)}

MatchOf(P, k, i) == <<k, i, i + Len(P[k])>>

LongestFirst(P, C) ==
    LET L == MaxOf({Len(P[k]) : k \in C})
    IN  MinOf({k \in C : Len(P[k]) = L})

(* choice among the patterns C occurring at one start offset *)
LeftmostPick(P, K, C) == IF K = "lf" THEN MinOf(C) ELSE LongestFirst(P, C)

RECURSIVE LeftmostFrom(_, _, _, _, _, _, _)
LeftmostFrom(P, K, h, i, hi, e, ci) ==
    IF i > hi THEN None
    ELSE LET C == PatsAt(P, h, i, e, ci) IN
         IF C # {} THEN MatchOf(P, LeftmostPick(P, K, C), i)
         ELSE LeftmostFrom(P, K, h, i + 1, hi, e, ci)

(* smallest start; there: first supplied (lf) / longest, ties first (ll) *)
Leftmost(P, K, h, s, e, ci, an) ==
    LeftmostFrom(P, K, h, s, IF an THEN s ELSE e, e, ci)

RECURSIVE StandardFrom(_, _, _, _, _, _, _)
StandardFrom(P, h, s, t, e, ci, an) ==
    IF t > e THEN None
    ELSE LET C == EndsAt(P, h, s, t, ci, an) IN
         IF C # {} THEN LET k == LongestFirst(P, C) IN <<k, t - Len(P[k]), t>>
         ELSE StandardFrom(P, h, s, t + 1, e, ci, an)

(* smallest end; there: longest; ties: first supplied *)
Standard(P, h, s, e, ci, an) == StandardFrom(P, h, s, s, e, ci, an)

(* The single non-overlapping search (C01, C02, C09, C10). *)
FindOracle(P, K, h, s, e, ci, an) ==
    IF s > e THEN None
    ELSE IF K = "std" THEN Standard(P, h, s, e, ci, an)
    ELSE Leftmost(P, K, h, s, e, ci, an)

IsMatchOracle(P, h, s, e, ci, an) ==
    s <= e /\ \E i \in (IF an THEN {s} ELSE s..e) : PatsAt(P, h, i, e, ci) # {}

(* Is r a genuine occurrence in the span (C14, C15) *)
IsOccurrence(P, h, s, e, ci, an, r) ==
    /\ r # None
    /\ r[1] \in 1..Len(P)
    /\ r[2] >= s /\ r[3] <= e /\ r[3] = r[2] + Len(P[r[1]])
    /\ (an => r[2] = s)
    /\ OccursAt(P[r[1]], h, r[2], e, ci)

(* Earliest mode (C14): a genuine occurrence ending no later than the      *)
(* normal answer; nothing iff the normal search finds nothing.             *)
EarliestOK(P, K, h, s, e, ci, an, r) ==
    LET n == FindOracle(P, K, h, s, e, ci, an) IN
    IF n = None THEN r = None
    ELSE IsOccurrence(P, h, s, e, ci, an, r) /\ r[3] <= n[3]

(* Non-overlapping iteration (C01, C02, C09): repeat the search from the   *)
(* end of the previous match; an empty match is never yielded at the offset*)
(* where the previous match ended (the search from one byte later is taken *)
(* instead).  last = -1 means "no previous match".                         *)
RECURSIVE IterFrom(_, _, _, _, _, _, _, _)
IterFrom(P, K, h, s, e, ci, an, last) ==
    LET m == FindOracle(P, K, h, s, e, ci, an) IN
    IF m = None THEN <<>>
    ELSE IF m[2] = m[3] /\ m[3] = last
         THEN LET m2 == FindOracle(P, K, h, s + 1, e, ci, an) IN
              IF m2 = None THEN <<>>
              ELSE <<m2>> \o IterFrom(P, K, h, m2[3], e, ci, an, m2[3])
         ELSE <<m>> \o IterFrom(P, K, h, m[3], e, ci, an, m[3])

IterOracle(P, K, h, s, e, ci, an) == IterFrom(P, K, h, s, e, ci, an, -1)

(* Overlapping search (C03, anchored: C09): every occurrence exactly once, *)
(* by end offset, longer first at equal end, then supply order.            *)
RECURSIVE SortByLenThenId(_, _)
SortByLenThenId(P, C) ==
    IF C = {} THEN <<>>
    ELSE LET k == LongestFirst(P, C) IN <<k>> \o SortByLenThenId(P, C \ {k})

RECURSIVE OverlapFrom(_, _, _, _, _, _, _)
OverlapFrom(P, h, s, t, e, ci, an) ==
    IF t > e THEN <<>>
    ELSE LET ks == SortByLenThenId(P, EndsAt(P, h, s, t, ci, an)) IN
         [j \in 1..Len(ks) |-> <<ks[j], t - Len(P[ks[j]]), t>>]
            \o OverlapFrom(P, h, s, t + 1, e, ci, an)

OverlapOracle(P, h, s, e, ci, an) ==
    IF s > e THEN <<>> ELSE OverlapFrom(P, h, s, s, e, ci, an)

(* ---------------------------------------------------------------------- *)
(* Replacement (C12, C08).  R[k] is the replacement for pattern k.  The    *)
(* closure is asked about at most `stop` matches (the stop-th call returns *)
(* false); stop = 0 means it always returns true.                          *)
Slice(h, a, b) == SubSeq(h, a + 1, b)          \* bytes at offsets a..b-1

IsCharBoundary(h, i) ==
    i = 0 \/ i = Len(h) \/ (i < Len(h) /\ ~(h[i + 1] >= 128 /\ h[i + 1] < 192))

RECURSIVE SpliceFrom(_, _, _, _, _, _, _, _)
(* ms: remaining matches; last: end of last spliced match; n: closure calls*)
(* so far; str: skip matches not on character boundaries                   *)
SpliceFrom(h, ms, R, last, n, stop, str, acc) ==
    IF ms = <<>> THEN acc \o Slice(h, last, Len(h))
    ELSE LET m == Head(ms) IN
         IF str /\ ~(IsCharBoundary(h, m[2]) /\ IsCharBoundary(h, m[3]))
         THEN SpliceFrom(h, Tail(ms), R, last, n, stop, str, acc)
         ELSE LET acc2 == acc \o Slice(h, last, m[2]) \o R[m[1]] IN
              IF n + 1 = stop THEN acc2 \o Slice(h, m[3], Len(h))
              ELSE SpliceFrom(h, Tail(ms), R, m[3], n + 1, stop, str, acc2)

ReplaceOracle(P, K, h, ci, R, stop, str) ==
    SpliceFrom(h, IterOracle(P, K, h, 0, Len(h), ci, FALSE), R, 0, 0, stop, str, <<>>)

(* Well-formed UTF-8 at the level the crate relies on: sequence of         *)
(* characters given as lead byte followed by continuation bytes.           *)
Utf8Len(b) == IF b < 128 THEN 1 ELSE IF b >= 240 THEN 4 ELSE IF b >= 224 THEN 3
              ELSE IF b >= 192 THEN 2 ELSE 0
RECURSIVE IsUtf8From(_, _)
IsUtf8From(h, i) ==
    IF i = Len(h) THEN TRUE
    ELSE LET n == Utf8Len(h[i + 1]) IN
         /\ n > 0 /\ i + n <= Len(h)
         /\ \A j \in 2..n : h[i + j] >= 128 /\ h[i + j] < 192
         /\ IsUtf8From(h, i + n)
IsUtf8(h) == IsUtf8From(h, 0)

(* ---------------------------------------------------------------------- *)
(* Facts about the oracles themselves (checked by TLC in MC_Base):          *)
Shift(m, d) == IF m = None THEN None ELSE <<m[1], m[2] + d, m[3] + d>>
ShiftAll(ms, d) == [j \in 1..Len(ms) |-> Shift(ms[j], d)]

(* C10: searching a span = searching the sub-slice, shifted *)
SpanLocalFind(P, K, h, s, e, ci, an) ==
    FindOracle(P, K, h, s, e, ci, an)
      = Shift(FindOracle(P, K, Slice(h, s, e), 0, e - s, ci, an), s)
SpanLocalIter(P, K, h, s, e, ci, an) ==
    IterOracle(P, K, h, s, e, ci, an)
      = ShiftAll(IterOracle(P, K, Slice(h, s, e), 0, e - s, ci, an), s)
SpanLocalOverlap(P, h, s, e, ci, an) ==
    OverlapOracle(P, h, s, e, ci, an)
      = ShiftAll(OverlapOracle(P, Slice(h, s, e), 0, e - s, ci, an), s)

=============================================================================
