----------------------------- MODULE ACOverlap -----------------------------
(***************************************************************************)
(* Overlapping search (src/automaton.rs): try_find_overlapping_fwd and     *)
(* try_find_overlapping_fwd_imp on a caller-owned OverlappingState         *)
(* {mat, id, at, next_match_index}.  The caller steps it repeatedly; the   *)
(* history variable `reported` collects what get_match() showed after each *)
(* call.  Actions:                                                         *)
(*   Enter  the prologue of a call: clear mat, is_done check, the          *)
(*          `match state.id` case analysis (start-state matches / pending  *)
(*          matches of the current state / advance)                        *)
(*   Step   one iteration of `while state.at < input.end()`                *)
(*   Probe  the prefilter consulted in the start state (abstract: any      *)
(*          sound candidate, see ACSearch)                                 *)
(*   Return the call returns; the caller reads get_match()                 *)
(* An anchored call only reports matches that start at the span start      *)
(* (the match list of a state is ordered longest first, so once one entry  *)
(* starts too late all later entries do).                                  *)
(***************************************************************************)
EXTENDS ACAutomaton, TLC

CONSTANTS Sigma, MaxPats, MaxPatLen, MaxHay, Kinds, CIs, Anchs, Pres,
          TailCalls      \* how many calls are made after the first `None`

VARIABLES cfg,       \* [pats, kind, ci, hay, s, e, an, pre]
          st,        \* OverlappingState: [mat, id, at, nmi]; id = <<"none">> or <<"some", node>>
          pc,        \* "new" | "idle" | "loop" | "probe" | "ret" | "done"
          sid,       \* the local `sid` of the running call
          reported,  \* history: matches shown so far
          nones      \* history: number of calls that showed None
vars == <<cfg, st, pc, sid, reported, nones>>
View == <<cfg, st, pc, sid, Len(reported), nones>>

SeqsUpTo(S, n) == UNION {[1..k -> S] : k \in 0..n}
P == IF cfg.ci THEN FoldAll(cfg.pats) ELSE cfg.pats
K == cfg.kind
H == cfg.hay
NoIdx == -1
PreAllowed(pats) == Len(pats) > 0 /\ \A k \in 1..Len(pats) : Len(pats[k]) > 0
PreActive == cfg.pre /\ ~cfg.an

OkAnchored(m) == ~(cfg.an /\ m[2] > cfg.s)

NoOccBefore(a, b, i) ==
    \A j \in a..(i - 1) : j <= b => PatsAt(cfg.pats, H, j, b, cfg.ci) = {}
SoundPos(a, b) ==   \* into_option() of every sound candidate; -1 = Candidate::None
    (IF \A j \in a..b : PatsAt(cfg.pats, H, j, b, cfg.ci) = {} THEN {-1} ELSE {})
    \cup {j \in a..b : NoOccBefore(a, b, j)}

StartState == [mat |-> None, id |-> <<"none">>, at |-> 0, nmi |-> NoIdx]

Init ==
    /\ \E pats \in SeqsUpTo(SeqsUpTo(Sigma, MaxPatLen), MaxPats), kind \in Kinds, ci \in CIs :
         cfg = [pats |-> pats, kind |-> kind, ci |-> ci, hay |-> <<>>,
                s |-> 0, e |-> 0, an |-> FALSE, pre |-> FALSE]
    /\ st = StartState /\ pc = "new" /\ sid = Root /\ reported = <<>> /\ nones = 0

New ==
    /\ pc = "new"
    /\ \E hay \in SeqsUpTo(Sigma, MaxHay), an \in Anchs :
         \E e \in 0..Len(hay) : \E s \in 0..(e + 1) :
         \E pre \in (IF PreAllowed(cfg.pats) THEN Pres ELSE {FALSE}) :
            cfg' = [cfg EXCEPT !.hay = hay, !.s = s, !.e = e, !.an = an, !.pre = pre]
    /\ pc' = "idle" /\ UNCHANGED <<st, sid, reported, nones>>

Enter ==
    /\ pc = "idle"
    /\ IF cfg.s > cfg.e
       THEN st' = [st EXCEPT !.mat = None] /\ pc' = "ret" /\ UNCHANGED sid
       ELSE IF st.id[1] = "none"
       THEN LET ml == M(P, K, Root)
                i  == IF st.nmi = NoIdx THEN 0 ELSE st.nmi IN
            IF ml # <<>> /\ i < Len(ml)
            THEN /\ st' = [st EXCEPT !.nmi = i + 1,
                                     !.mat = GetMatch(P, K, Root, i + 1, cfg.s)]
                 /\ pc' = "ret" /\ UNCHANGED sid
            ELSE /\ st' = [mat |-> None, id |-> <<"some", Root>>, at |-> cfg.s, nmi |-> NoIdx]
                 /\ sid' = Root /\ pc' = "loop"
       ELSE LET cur == st.id[2] IN
            IF st.nmi # NoIdx
            THEN LET ml == M(P, K, cur) IN
                 IF st.nmi < Len(ml) /\ OkAnchored(GetMatch(P, K, cur, st.nmi + 1, st.at + 1))
                 THEN /\ st' = [st EXCEPT !.nmi = st.nmi + 1,
                                          !.mat = GetMatch(P, K, cur, st.nmi + 1, st.at + 1)]
                      /\ pc' = "ret" /\ UNCHANGED sid
                 ELSE /\ st' = [st EXCEPT !.at = st.at + 1, !.nmi = NoIdx, !.mat = None]
                      /\ sid' = cur /\ pc' = "loop"
            ELSE st' = [st EXCEPT !.mat = None] /\ sid' = cur /\ pc' = "loop"
    /\ UNCHANGED <<cfg, reported, nones>>

Step ==
    /\ pc = "loop"
    /\ IF st.at >= cfg.e
       THEN st' = [st EXCEPT !.id = <<"some", sid>>] /\ pc' = "ret" /\ UNCHANGED sid
       ELSE LET n == Nxt(P, K, cfg.an, sid, Feed(H[st.at + 1], cfg.ci)) IN
            /\ sid' = n
            /\ IF n = DEAD
               THEN st' = [st EXCEPT !.id = <<"some", n>>] /\ pc' = "ret"
               ELSE IF IsMatchState(P, K, n)
               THEN LET m == GetMatch(P, K, n, 1, st.at + 1) IN
                    IF OkAnchored(m)
                    THEN /\ st' = [st EXCEPT !.id = <<"some", n>>, !.nmi = 1, !.mat = m]
                         /\ pc' = "ret"
                    ELSE /\ st' = [st EXCEPT !.id = <<"some", n>>, !.at = st.at + 1]
                         /\ UNCHANGED pc
               ELSE IF n = Root /\ PreActive
               THEN st' = [st EXCEPT !.id = <<"some", n>>] /\ pc' = "probe"
               ELSE st' = [st EXCEPT !.at = st.at + 1] /\ UNCHANGED pc
    /\ UNCHANGED <<cfg, reported, nones>>

Probe ==
    /\ pc = "probe"
    /\ \E c \in SoundPos(st.at, cfg.e) :
         IF c = -1 THEN pc' = "ret" /\ UNCHANGED st
         ELSE /\ st' = [st EXCEPT !.at = IF c > st.at THEN c ELSE st.at + 1]
              /\ pc' = "loop"
    /\ UNCHANGED <<cfg, sid, reported, nones>>

Return ==
    /\ pc = "ret"
    /\ IF st.mat # None
       THEN reported' = Append(reported, st.mat) /\ UNCHANGED nones /\ pc' = "idle"
       ELSE /\ nones' = nones + 1 /\ UNCHANGED reported
            /\ pc' = IF nones + 1 > TailCalls THEN "done" ELSE "idle"
    /\ UNCHANGED <<cfg, st, sid>>

Next == New \/ Enter \/ Step \/ Probe \/ Return
Spec == Init /\ [][Next]_vars

Oracle == OverlapOracle(cfg.pats, H, cfg.s, cfg.e, cfg.ci, cfg.an)
IsPrefixSeq(a, b) == Len(a) <= Len(b) /\ \A j \in 1..Len(a) : a[j] = b[j]

(* C03 (an = FALSE), C09 (an = TRUE): every occurrence exactly once, in    *)
(* order; once a call shows None everything has been reported and every    *)
(* later call shows None.                                                  *)
OverlapCorrect ==
    /\ IsPrefixSeq(reported, Oracle)
    /\ nones > 0 => reported = Oracle

(* the position never moves backwards and stays inside the span *)
StateSane ==
    st.id[1] = "some" => st.at >= cfg.s /\ (cfg.s <= cfg.e => st.at <= cfg.e)

=============================================================================
