-------------------------------- MODULE Prod --------------------------------
(***************************************************************************)
(* B1 - product exploration.                                               *)
(*                                                                         *)
(* IOEnv.DUMP names an ndjson file written by `acverif dump`: one line per *)
(* REAL automaton (noncontiguous NFA / contiguous NFA / DFA, every builder *)
(* option), listing its reachable states with flags, match lists and       *)
(* transition rows as observed through the public Automaton trait.         *)
(*                                                                         *)
(* TLC explores, for every dumped automaton and both anchoring modes, the  *)
(* product of the dumped graph with the specification automaton            *)
(* (ACAutomaton) for the same patterns: both sides are fed the same byte.  *)
(* Because the product is explored to a fixed point, agreement in every    *)
(* reachable pair means agreement on haystacks of EVERY length (C04, C16,  *)
(* and the automaton half of C01/C02/C03/C09/C11).                         *)
(*                                                                         *)
(* Disagreements do not stop the exploration: each one prints a DISAGREE   *)
(* line (context index, mode, byte path = replay haystack, reason), so one *)
(* run lists all of them.                                                  *)
(***************************************************************************)
EXTENDS ACAutomaton, TLC, Json, IOUtils

Dump == ndJsonDeserialize(IOEnv.DUMP)

VARIABLES ctx,    \* index of the automaton in the dump
          mode,   \* "U" unanchored walk, "A" anchored walk, "L" local sweep
          i,      \* implementation state (index into Dump[ctx].states)
          s,      \* specification state (trie node or DEAD)
          path,   \* bytes fed so far (hidden by VIEW)
          ep      \* prepared pattern list of this automaton (a cache, hidden by VIEW)
vars == <<ctx, mode, i, s, path, ep>>
View == <<ctx, mode, i, s>>

D == Dump[ctx]
PatsOf(d) == IF d.ctx.ci THEN FoldAll(d.ctx.pats) ELSE d.ctx.pats
KOf(d) == d.ctx.mk

Built(c) == Dump[c].err = ""
StartOf(c, md) == IF md = "A" THEN Dump[c].startA ELSE Dump[c].startU

Init ==
    /\ ctx \in 1..Len(Dump)
    /\ mode \in {"U", "A", "L"}
    /\ path = <<>>
    /\ s = Root
    /\ ep = Prep(PatsOf(Dump[ctx]), KOf(Dump[ctx]))
    /\ IF mode = "L" \/ ~Built(ctx) THEN i = 0
       ELSE i = StartOf(ctx, mode)
    \* unsupported start: nothing to walk (checked by StartErr below)
    /\ (mode # "L" /\ Built(ctx)) => TRUE

RowOf(st, md) == IF md = "A" /\ ~st.same THEN st.rowA ELSE st.rowU

Next ==
    /\ mode \in {"U", "A"} /\ i # 0
    /\ \E bi \in 1..Len(D.bytes) :
         LET b == D.bytes[bi] IN
         /\ i' = RowOf(D.states[i], mode)[bi]
         /\ s' = Nxt(ep, PrepK(KOf(D)), mode = "A", s, Feed(b, D.ctx.ci))
         /\ path' = Append(path, b)
    /\ UNCHANGED <<ctx, mode, ep>>

Spec == Init /\ [][Next]_vars

(* ----- what must agree in every reachable pair (i, s) ----- *)
Report(kind, why) ==
    PrintT("DISAGREE " \o ToJson([kind |-> kind, ctx |-> ctx, mode |-> mode,
                                  path |-> path, why |-> ToString(why)]))

PairOK ==
    LET st == D.states[i]
        m  == M(ep, PrepK(KOf(D)), s)
    IN
    \* an implementation state that is dead although the search must go on is a defect;
    \* one that is still alive where the specification has given up (and never matches
    \* again: checked by `ismatch` on all its successors) only costs time: DRIFT
    /\ (st.d => s = DEAD)           \/ Report("dead", <<st.d, s>>)
    /\ (s = DEAD => st.d)           \/ Report("drift-dead", <<st.d, s>>)
    /\ (st.ms <=> m # <<>>)          \/ Report("ismatch", <<st.ms, m>>)
    \* standard semantics: the whole list, in order (C03 fixes the order of overlapping
    \* matches); leftmost semantics: only the first entry is ever reported by a search,
    \* the rest must be valid identifiers (LocalOK) - a different tail is DRIFT
    /\ (st.ms /\ m # <<>> => (IF KOf(D) = "std" \/ st.m = <<>> THEN st.m = m ELSE Head(st.m) = Head(m)))
                                     \/ Report("matchlist", <<st.m, m>>)
    /\ (st.ms /\ m # <<>> => st.m = m) \/ Report("drift-matchtail", <<st.m, m>>)
    \* the states start_state() hands out answer is_start (the documented contract of the
    \* trait); what ELSE is flagged as a start state is not fixed by any listed property (a DFA
    \* with a single start kind flags its dead state as the missing start state): DRIFT only
    /\ (path = <<>> /\ s = Root => st.st) \/ Report("isstart", <<st.st, s>>)
    /\ ((s = Root => st.st) /\ (st.st => s = Root \/ s = DEAD))
                                     \/ Report("drift-isstart", <<st.st, s>>)

(* C16 local contract, evaluated on EVERY dumped state (the dump is the     *)
(* closure under both anchoring arguments from both start states):          *)
LocalOK(d, j) ==
    LET st == d.states[j] IN
    /\ (st.d \/ st.ms) => st.sp
    /\ st.sp => (st.d \/ st.ms \/ st.st)
    /\ st.ms => /\ Len(st.m) >= 1
                /\ \A x \in 1..Len(st.m) : st.m[x] \in 1..Len(d.ctx.pats)
    /\ ~(st.d /\ st.ms)
    /\ st.d => /\ \A x \in 1..Len(st.rowU) : st.rowU[x] = j
               /\ st.same \/ \A x \in 1..Len(st.rowA) : st.rowA[x] = j
    /\ \A x \in 1..Len(st.rowU) : st.rowU[x] \in 1..Len(d.states)
    \* a start state is special exactly when the automaton has a prefilter or
    \* the state is also a match state: nothing the properties fix, not checked

BadLocal(d) == {j \in 1..Len(d.states) : ~LocalOK(d, j)}

(* start_state fails exactly for the unsupported anchoring (C16, C13)       *)
StartErrOK(d) ==
    /\ (d.startU # 0) <=> StartOK(d.esk, FALSE)
    /\ (d.startA # 0) <=> StartOK(d.esk, TRUE)

(* metadata mirrors the input (C20) *)
MkName(k) == IF k = "std" THEN "Standard" ELSE IF k = "lf" THEN "LeftmostFirst"
             ELSE "LeftmostLongest"
MetaOK(d) ==
    LET P == d.ctx.pats IN
    /\ d.npat = Len(P)
    /\ d.plens = [k \in 1..Len(P) |-> Len(P[k])]
    /\ Len(P) > 0 => /\ d.minlen = MinOf({Len(P[k]) : k \in 1..Len(P)})
                     /\ d.maxlen = MaxOf({Len(P[k]) : k \in 1..Len(P)})
    /\ d.mkrep = MkName(d.ctx.mk)

LocalSweep ==
    IF ~Built(ctx) THEN Report("build", D.err)
    ELSE /\ BadLocal(D) = {} \/ Report("local", BadLocal(D))
         /\ StartErrOK(D)    \/ Report("starterr", <<D.startU, D.startA, D.esk>>)
         /\ MetaOK(D)        \/ Report("meta", <<D.npat, D.plens, D.minlen, D.maxlen, D.mkrep>>)

(* The "invariant" always holds; disagreements are printed. *)
Agree ==
    IF mode = "L" THEN LocalSweep
    ELSE IF i = 0 THEN TRUE
    ELSE PairOK

=============================================================================
