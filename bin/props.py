#!/usr/bin/env python3
"""Per-property decision procedures (DESIGN.md section 6)."""
import json

import stages
from stages import calls, events_trace, guard, harness_calls, mc, product, streams, tla_set
from vlib import log

ALLK = ["std", "lf", "ll"]


def search_consts(kinds, anchs, earlies, pres, big, cis=(False,), sigma=(1, 2)):
    return {
        "Sigma": tla_set(sigma),
        "MaxPats": 2,
        "MaxPatLen": 3 if big else 2,
        "MaxHay": 5 if big else 4,
        "Kinds": tla_set(kinds),
        "CIs": tla_set(cis),
        "Anchs": tla_set(anchs),
        "Earlies": tla_set(earlies),
        "Pres": tla_set(pres),
    }


SEARCH_INV = ["Correct", "IsMatchAgrees", "InSpan", "WorkBound", "SkipOnlyFromStart", "TypeOK",
              "Lemmas", "RunAgrees"]


def iter_consts(kinds, anchs, big, cis=(False,), sigma=(1, 2)):
    return {
        "Sigma": tla_set(sigma), "MaxPats": 2, "MaxPatLen": 3 if big else 2,
        "MaxHay": 5 if big else 4, "Kinds": tla_set(kinds), "CIs": tla_set(cis),
        "Anchs": tla_set(anchs),
    }


ITER_INV = ["IterCorrect", "StartValid", "AnchoredChain", "AnchoredStarts", "NonOverlapping"]


def overlap_consts(anchs, pres, big, cis=(False,), sigma=(1, 2)):
    return {
        "Sigma": tla_set(sigma), "MaxPats": 2, "MaxPatLen": 3 if big else 2,
        "MaxHay": 4, "Kinds": tla_set(["std"]), "CIs": tla_set(cis),
        "Anchs": tla_set(anchs), "Pres": tla_set(pres), "TailCalls": 2,
    }


def c01(ck, thorough):
    """leftmost-first / leftmost-longest find and iteration"""
    kinds = ["lf", "ll"]
    mc(ck, "ACSearch", "c01_search", search_consts(kinds, [False], [False], [False], True),
       SEARCH_INV, ["PositionMonotone"])
    mc(ck, "ACIter", "c01_iter", iter_consts(kinds, [False], thorough), ITER_INV, ["Progress"])
    fams = ["f23", "rand:%d:10:6" % (400 if thorough else 60)] + (["f33"] if thorough else [])
    product(ck, "c01", fams, full=thorough, shards=4, mks=kinds)
    calls(ck, "c01_enum", "enum", scale=2 if thorough else 1, mks=kinds, an="no", flav="find,iter")
    calls(ck, "c01_rand", "rand", scale=10 if thorough else 2, mks=kinds, an="no", flav="find,iter")
    ck.extra["rule"] = ("model: all pattern lists of <=2 patterns of <=3 bytes over a 2-letter alphabet x all "
                        "haystacks x all spans; implementation: product of every real automaton with the "
                        "spec automaton (all haystacks), calls validated against the declarative oracle")


def c02(ck, thorough):
    """standard semantics"""
    kinds = ["std"]
    mc(ck, "ACSearch", "c02_search", search_consts(kinds, [False], [False], [False], True),
       SEARCH_INV, ["PositionMonotone"])
    mc(ck, "ACIter", "c02_iter", iter_consts(kinds, [False], True), ITER_INV, ["Progress"])
    fams = ["f23", "rand:%d:10:6" % (400 if thorough else 60)] + (["f33"] if thorough else [])
    product(ck, "c02", fams, full=thorough, shards=4, mks=kinds)
    calls(ck, "c02_enum", "enum", scale=2, mks=kinds, an="no", flav="find,iter")
    calls(ck, "c02_rand", "rand", scale=10 if thorough else 2, mks=kinds, an="no", flav="find,iter")


def c03(ck, thorough):
    """overlapping search"""
    mc(ck, "ACOverlap", "c03_overlap", overlap_consts([False], [False, True], thorough),
       ["OverlapCorrect", "StateSane"], view="View")
    fams = ["f23", "rand:%d:10:6" % (400 if thorough else 60)] + (["f33"] if thorough else [])
    product(ck, "c03", fams, full=thorough, shards=4, mks=["std"])
    calls(ck, "c03_enum", "enum", scale=2, mks=["std"], an="no", flav="overlap")
    calls(ck, "c03_rand", "rand", scale=10 if thorough else 2, mks=["std"], an="no", flav="overlap")


def c04(ck, thorough):
    """representation independence: every representation is bisimilar to the same spec automaton"""
    fams = ["f23", "ci", "shapes", "rand:%d:12:8" % (600 if thorough else 80)]
    if thorough:
        fams += ["f33", "ci3"]
    product(ck, "c04", fams, full=True, shards=4, mks=ALLK)
    calls(ck, "c04_kinds", "kinds", scale=6 if thorough else 1, mks=ALLK, an="both", flav="all")


def stream_consts(big, faults):
    return {"Sigma": tla_set([1, 2]), "MaxPats": 2, "MaxPatLen": 3 if big else 2,
            "MaxStream": 6 if big else 5, "CIs": tla_set([False]),
            "CapExtra": tla_set([1, 2, 3, 6]), "MaxFaults": 1 if faults else 0}


STREAM_INV = ["ChunkConcat", "MatchPrefix", "Complete", "Indices", "NoFalseEof",
              "EofOnlyWhenReaderSaysSo", "FailedIsPrefix"]


def c05(ck, thorough):
    """prefilter transparency"""
    mc(ck, "ACPrefilterMC", "c05_prefilter",
       {"Sigma": tla_set([97, 65, 98]), "MaxPats": 2, "MaxPatLen": 2 if not thorough else 3,
        "MaxHay": 4, "Kinds": tla_set(ALLK), "CIs": tla_set([False, True])},
       ["AdmissibleIsSound"])
    mc(ck, "ACSearch", "c05_search",
       search_consts(ALLK, [False], [False, True], [True], thorough, sigma=(1, 2, 3) if thorough else (1, 2)),
       SEARCH_INV, ["PositionMonotone"])
    mc(ck, "ACOverlap", "c05_overlap", overlap_consts([False], [True], thorough),
       ["OverlapCorrect", "StateSane"], view="View")
    calls(ck, "c05_prefilter", "prefilter", scale=4 if thorough else 1, mks=ALLK, an="both", flav="all")


def c06(ck, thorough):
    """packed searchers"""
    mc(ck, "ACPacked", "c06_packed",
       {"Sigma": tla_set([0, 1, 2]), "NybbleBase": 2, "MaxPats": 2, "MaxPatLen": 3 if thorough else 2,
        "MaxHay": 6 if thorough else 4, "Vs": tla_set([2, 4]), "Bs": tla_set([2, 3] if thorough else [2]),
        "Kinds": tla_set(["lf", "ll"])},
       ["PackedCorrect", "LoadInBounds", "MatchInSpan", "Coverage"], view="View")
    calls(ck, "c06_packed", "all", scale=4 if thorough else 1, sub="packed")


def c07(ck, thorough):
    """stream search = in-memory search for every read schedule and capacity"""
    mc(ck, "ACStream", "c07_stream", stream_consts(thorough, False), STREAM_INV)
    streams(ck, "c07_enum", "enum", maxstream=5 if thorough else 4, sizes="1,2,3")
    streams(ck, "c07_rand", "rand", scale=12 if thorough else 2)


def c08(ck, thorough):
    """stream replacement reproduces the stream outside matches"""
    mc(ck, "ACStream", "c08_stream", stream_consts(thorough, False), STREAM_INV)
    streams(ck, "c08_enum", "enum", maxstream=5 if thorough else 4, sizes="1,2,4")
    streams(ck, "c08_rand", "rand", scale=12 if thorough else 2)


def c18(ck, thorough):
    """I/O failures surface as errors and never corrupt what was produced"""
    mc(ck, "ACStream", "c18_stream", stream_consts(thorough, True), STREAM_INV)
    streams(ck, "c18_enum", "enum", faults=True, maxstream=4 if thorough else 3, sizes="1,3")
    streams(ck, "c18_rand", "rand", faults=True, scale=12 if thorough else 2)


def c09(ck, thorough):
    """anchored searches"""
    mc(ck, "ACSearch", "c09_search", search_consts(ALLK, [True], [False, True], [False], True),
       SEARCH_INV, ["PositionMonotone"])
    mc(ck, "ACIter", "c09_iter", iter_consts(ALLK, [True], thorough), ITER_INV, ["Progress"])
    mc(ck, "ACOverlap", "c09_overlap", overlap_consts([True], [False], thorough),
       ["OverlapCorrect", "StateSane"], view="View")
    fams = ["f23", "rand:%d:10:6" % (300 if thorough else 40)]
    product(ck, "c09", fams, full=thorough, shards=4, mks=ALLK)
    calls(ck, "c09_enum", "enum", scale=2 if thorough else 1, mks=ALLK, an="yes", flav="all")
    calls(ck, "c09_rand", "rand", scale=10 if thorough else 2, mks=ALLK, an="yes", flav="all")


def c14(ck, thorough):
    """is_match / earliest"""
    mc(ck, "ACSearch", "c14_search",
       search_consts(ALLK, [False, True], [True], [False, True], thorough),
       SEARCH_INV, ["PositionMonotone"])
    calls(ck, "c14_enum", "enum", scale=2 if thorough else 1, mks=ALLK, an="both",
          flav="find,early,is_match")
    calls(ck, "c14_rand", "rand", scale=10 if thorough else 2, mks=ALLK, an="both",
          flav="find,early,is_match")


def c15(ck, thorough):
    """no out-of-bounds access, no panic"""
    mc(ck, "ACPacked", "c15_packed",
       {"Sigma": tla_set([0, 1, 2]), "NybbleBase": 2, "MaxPats": 2, "MaxPatLen": 2,
        "MaxHay": 5 if thorough else 4, "Vs": tla_set([2, 4]), "Bs": tla_set([2]),
        "Kinds": tla_set(["lf"])},
       ["LoadInBounds", "MatchInSpan", "Coverage", "PackedCorrect"], view="View")
    guard(ck, "c15", scale=3 if thorough else 1)
    ck.extra["rule"] = ("every search/replace API and every packed variant on haystacks of length 0..104 placed flush "
                        "against a PROT_NONE page on the right and on the left, random and pattern-truncating contents")
    ck.assumptions.append("an out-of-bounds read of >= 1 byte beyond either end of the haystack faults; reads "
                          "that stay inside the two mapped pages but outside the slice are not observable")


def c17(ck, thorough):
    """purity / sharing across threads"""
    mc(ck, "ACShared", "c17_shared",
       {"Clients": "{1, 2, 3}" if thorough else "{1, 2}", "Sigma": tla_set([1, 2]), "MaxPatLen": 2,
        "MaxHay": 2, "Kinds": tla_set(ALLK), "CallsPerClient": 2 if thorough else 1},
       ["Pure", "Deterministic"], ["Immutable"])
    harness_calls(ck, "c17_threads", "threads", scale=4 if thorough else 1, shards=6, what="threads")
    ck.extra["rule"] = ("2..16 real threads share one searcher (and clones), start on a barrier and run shuffled call "
                        "sequences; every result and the searcher's full Debug dump before/after are validated by TLC; "
                        "the same calls are repeated sequentially in another order interleaved with unrelated searches")
    ck.assumptions.append("schedules are whatever the OS produced on this run; absence of interior mutability in the "
                          "source is not proved (a textual scan is recorded as an observation only)")
    import subprocess
    scan = subprocess.run("grep -rnE 'Cell<|RefCell|Atomic|Mutex|RwLock|static mut|thread_local' /repo/src "
                          "--include=*.rs | grep -v '^/repo/src/verif.rs' | grep -v 'cfg(all(aho_corasick_verif' | wc -l",
                          shell=True, stdout=subprocess.PIPE, text=True).stdout.strip()
    ck.extra["interior_mutability_scan_hits_outside_hooks"] = int(scan or 0)


def c20(ck, thorough):
    """building and metadata"""
    events_trace(ck, "c20_build", "build", ["--scale", 2 if thorough else 1], "TraceApi", "TraceApiBuild.cfg",
                 "build", shards=8, sig_fields=("shape", "req", "mk", "sk"), distinct_drop=())
    harness_calls(ck, "c20_ids", "ids", scale=2 if thorough else 1, shards=8, what="pattern-ids")
    product(ck, "c20", ["f22", "shapes"], full=False, shards=2, mks=ALLK)
    ck.extra["rule"] = ("shape-diverse collections (none, only-empty, duplicates, all 256 bytes, 256-way fan-out, 300-byte "
                        "pattern, 100/101 patterns, nested, random; thorough: 3000x60 and 500x300) x requested kind x "
                        "match kind x start kind x 4 option combinations; metadata and requested kind validated by TLC")


def c16(ck, thorough):
    """low-level automaton contract"""
    mc(ck, "ACSearch", "c16_search", search_consts(ALLK, [False], [False], [False], False),
       SEARCH_INV, ["PositionMonotone"])
    fams = ["f23", "ci", "shapes", "rand:%d:12:8" % (600 if thorough else 80)]
    product(ck, "c16", fams, full=True, shards=4, mks=ALLK)
    calls(ck, "c16_recipe", "recipe", scale=6 if thorough else 1, mks=ALLK, an="no", flav="find")


def c10(ck, thorough):
    """span locality"""
    mc(ck, "ACBaseMC", "c10_oracle",
       {"Sigma": tla_set([1, 2]), "MaxPats": 2, "MaxPatLen": 2, "MaxHay": 5 if thorough else 4,
        "Kinds": tla_set(ALLK), "CIs": tla_set([False])},
       ["SpanLocal", "OutsideIrrelevant", "MatchesInSpan", "Consistent"])
    mc(ck, "ACSearch", "c10_search", search_consts(ALLK, [False, True], [False], [False, True], thorough),
       SEARCH_INV, ["PositionMonotone"])
    calls(ck, "c10_span", "span", scale=3 if thorough else 1, mks=ALLK, an="both", flav="all")


def ci_consts(d, big=False):
    d = dict(d)
    d["Sigma"] = tla_set([97, 65, 98, 64] if big else [97, 65, 64])
    d["CIs"] = tla_set([True])
    d["MaxPatLen"] = 2
    d["MaxHay"] = 3
    return d


def c11(ck, thorough):
    """ASCII case-insensitivity"""
    mc(ck, "ACSearch", "c11_search",
       ci_consts(search_consts(ALLK, [False, True], [False], [False, True], False), thorough),
       SEARCH_INV, ["PositionMonotone"])
    mc(ck, "ACIter", "c11_iter", ci_consts(iter_consts(ALLK, [False], False), thorough), ITER_INV, ["Progress"])
    mc(ck, "ACOverlap", "c11_overlap", ci_consts(overlap_consts([False, True], [False], False), thorough),
       ["OverlapCorrect", "StateSane"], view="View")
    product(ck, "c11", ["ci", "ci3"] if thorough else ["ci"], full=True, shards=4, mks=ALLK)
    calls(ck, "c11_ci", "ci", scale=4 if thorough else 1, mks=ALLK, an="both", flav="all")


def c12(ck, thorough):
    """replace_all"""
    mc(ck, "ACReplace", "c12_bytes",
       {"Sigma": tla_set([1, 2]), "MaxPats": 2, "MaxPatLen": 2, "MaxHay": 4, "Kinds": tla_set(ALLK),
        "CIs": tla_set([False]), "Strs": tla_set([False]), "ReplSet": '"bytes"',
        "MaxStop": 2},
       ["ReplaceCorrect", "SlicesOnBoundaries", "OutputUtf8"], ["LastMonotone"])
    # &str variant: 'a' and the two bytes of U+00E9; byte patterns may split the character
    mc(ck, "ACReplace", "c12_str",
       {"Sigma": tla_set([97, 195, 169]), "MaxPats": 2, "MaxPatLen": 2,
        "MaxHay": 5 if thorough else 4, "Kinds": tla_set(ALLK),
        "CIs": tla_set([False]), "Strs": tla_set([True]), "ReplSet": '"str"',
        "MaxStop": 1},
       ["ReplaceCorrect", "SlicesOnBoundaries", "OutputUtf8"], ["LastMonotone"])
    calls(ck, "c12_replace", "replace", scale=4 if thorough else 1, mks=ALLK, an="no", flav="all")


def c13(ck, thorough):
    """rejection depends only on configuration: the whole finite matrix, every kind"""
    events_trace(ck, "c13_matrix", "matrix", [], "TraceApi", "TraceApi.cfg", "rejection-matrix",
                 sig_fields=("api", "mk", "sk", "an", "empty", "kind"),
                 distinct_drop=("shape", "hay"))
    ck.extra["exhaustive"] = True
    ck.extra["rule"] = ("every cell of 21 entry points x 3 match kinds x 3 start kinds x anchoring x "
                        "empty-pattern, executed for 4 automaton kinds x 3 pattern lists x 3 haystacks; "
                        "TLC checks each against ACApi!Outcome and that no cell is missing")


def c19(ck, thorough):
    """bounded work per haystack byte"""
    mc(ck, "ACSearch", "c19_search",
       search_consts(ALLK, [False, True], [False, True], [False, True], thorough),
       SEARCH_INV, ["PositionMonotone"])
    calls(ck, "c19_work", "work", scale=3 if thorough else 1, mks=ALLK, an="both", flav="all")


CHECKS = {
    "C01": (c01, "model_checking"),
    "C02": (c02, "model_checking"),
    "C03": (c03, "model_checking"),
    "C04": (c04, "model_checking"),
    "C05": (c05, "model_checking"),
    "C06": (c06, "model_checking"),
    "C07": (c07, "model_checking"),
    "C08": (c08, "model_checking"),
    "C09": (c09, "model_checking"),
    "C10": (c10, "model_checking"),
    "C11": (c11, "model_checking"),
    "C12": (c12, "model_checking"),
    "C13": (c13, "model_checking"),
    "C19": (c19, "model_checking"),
    "C14": (c14, "model_checking"),
    "C15": (c15, "exploration"),
    "C16": (c16, "model_checking"),
    "C17": (c17, "exploration"),
    "C20": (c20, "exploration"),
    "C18": (c18, "model_checking"),
}


def replay(pid, path):
    """Re-run the check that produced a replay file (the checks are
    deterministic for a given VERIF_SEED, so this reproduces the case)."""
    with open(path) as f:
        r = json.load(f)
    log("replaying %s: %s" % (path, r.get("what")))
    from vlib import Check
    fn, level = CHECKS[pid]
    ck = Check(pid, "quick", level)
    fn(ck, False)
    return ck.finish()


def selftest():
    log("selftest: not implemented yet")
    return 0
