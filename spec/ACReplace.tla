----------------------------- MODULE ACReplace -----------------------------
(***************************************************************************)
(* In-memory replacement (src/automaton.rs): try_replace_all_with (&str    *)
(* haystack: matches not on character boundaries are skipped) and          *)
(* try_replace_all_with_bytes.  One action per iteration of                *)
(*     for m in self.try_find_iter(Input::new(haystack))? { ... }          *)
(* The iterator is ACIter's (searches are ACRun!FindRun); the closure      *)
(* appends the replacement for the match's pattern and returns false on    *)
(* its `stop`-th call (stop = 0: never).                                   *)
(***************************************************************************)
EXTENDS ACRun, TLC

CONSTANTS Sigma, MaxPats, MaxPatLen, MaxHay, Kinds, CIs, Strs, ReplSet, MaxStop

(* replacement strings to choose from (tuples cannot be written in a cfg) *)
Repls == IF ReplSet = "bytes" THEN {<<>>, <<9>>, <<9, 9>>}
         ELSE {<<>>, <<120>>, <<195, 169>>}

VARIABLES cfg,     \* [pats, kind, ci, hay, R, stop, str]
          pc,      \* "new" | "loop" | "done"
          start, lastend,    \* the iterator: input.start(), last_match_end
          lastm,   \* last_match (end of the last spliced match)
          dst,     \* output so far
          ncalls   \* closure calls so far
vars == <<cfg, pc, start, lastend, lastm, dst, ncalls>>

SeqsUpTo(S, n) == UNION {[1..k -> S] : k \in 0..n}

Init ==
    /\ \E pats \in SeqsUpTo(SeqsUpTo(Sigma, MaxPatLen), MaxPats), kind \in Kinds, ci \in CIs :
         cfg = [pats |-> pats, kind |-> kind, ci |-> ci, hay |-> <<>>,
                R |-> <<>>, stop |-> 0, str |-> FALSE]
    /\ pc = "new" /\ start = 0 /\ lastend = -1 /\ lastm = 0 /\ dst = <<>> /\ ncalls = 0

New ==
    /\ pc = "new"
    /\ \E hay \in SeqsUpTo(Sigma, MaxHay), str \in Strs, stop \in 0..MaxStop,
          R \in [1..Len(cfg.pats) -> Repls] :
         /\ (str => IsUtf8(hay))
         /\ cfg' = [cfg EXCEPT !.hay = hay, !.R = R, !.stop = stop, !.str = str]
    /\ pc' = "loop"
    /\ UNCHANGED <<start, lastend, lastm, dst, ncalls>>

H == cfg.hay
Search(from) == FindRun(cfg.pats, cfg.kind, cfg.ci, H, from, Len(H), FALSE, FALSE)

(* FindIter::next, as in ACIter *)
NextMatch ==
    LET m == Search(start) IN
    IF m = None THEN None
    ELSE IF m[2] = m[3] /\ m[3] = lastend THEN Search(start + 1)
    ELSE m

Finish == /\ dst' = dst \o Slice(H, lastm, Len(H)) /\ pc' = "done"
          /\ UNCHANGED <<start, lastend, lastm, ncalls>>

Iterate ==
    /\ pc = "loop"
    /\ LET m == NextMatch IN
       IF m = None THEN Finish
       ELSE IF cfg.str /\ ~(IsCharBoundary(H, m[2]) /\ IsCharBoundary(H, m[3]))
       THEN \* `continue`: the iterator has advanced, nothing is spliced
            /\ start' = m[3] /\ lastend' = m[3]
            /\ UNCHANGED <<pc, lastm, dst, ncalls>>
       ELSE /\ start' = m[3] /\ lastend' = m[3]
            /\ lastm' = m[3]
            /\ ncalls' = ncalls + 1
            /\ IF ncalls + 1 = cfg.stop
               THEN \* closure returned false: break, copy the rest verbatim
                    /\ dst' = dst \o Slice(H, lastm, m[2]) \o cfg.R[m[1]] \o Slice(H, m[3], Len(H))
                    /\ pc' = "done"
               ELSE /\ dst' = dst \o Slice(H, lastm, m[2]) \o cfg.R[m[1]]
                    /\ UNCHANGED pc
    /\ UNCHANGED cfg

Next == New \/ Iterate
Spec == Init /\ [][Next]_vars

ReplaceCorrect ==
    pc = "done" => dst = ReplaceOracle(cfg.pats, cfg.kind, H, cfg.ci, cfg.R, cfg.stop, cfg.str)

(* &str variant: every slice taken is on character boundaries (no panic)   *)
(* and the output is valid UTF-8 when the replacements are                 *)
SlicesOnBoundaries == (pc = "loop" /\ cfg.str) => IsCharBoundary(H, lastm)
OutputUtf8 == (pc = "done" /\ cfg.str /\ \A k \in 1..Len(cfg.R) : IsUtf8(cfg.R[k])) => IsUtf8(dst)

(* untouched bytes are preserved in order: the output restricted to what   *)
(* was copied is the haystack minus the replaced matches                   *)
LastMonotone == [][lastm' >= lastm]_vars

=============================================================================
