SPECIFICATION Spec
CONSTANTS
  Sigma = {1, 2}
  MaxPats = 2
  MaxPatLen = 2
  MaxHay = 4
  Kinds = {"std"}
  CIs = {FALSE}
  Anchs = {FALSE, TRUE}
  Pres = {FALSE, TRUE}
  TailCalls = 2
INVARIANTS OverlapCorrect StateSane
VIEW View
CHECK_DEADLOCK FALSE
