------------------------------ MODULE ACBaseMC ------------------------------
(***************************************************************************)
(* Facts about the oracles themselves, model-checked so that a wrong       *)
(* oracle does not go unnoticed (C10: span locality, bytes outside the     *)
(* span are irrelevant; matches lie inside the span).                      *)
(***************************************************************************)
EXTENDS ACBase, TLC

CONSTANTS Sigma, MaxPats, MaxPatLen, MaxHay, Kinds, CIs

VARIABLES cfg, pc
vars == <<cfg, pc>>
SeqsUpTo(S, n) == UNION {[1..k -> S] : k \in 0..n}

Init ==
    /\ \E pats \in SeqsUpTo(SeqsUpTo(Sigma, MaxPatLen), MaxPats), kind \in Kinds, ci \in CIs :
         cfg = [pats |-> pats, kind |-> kind, ci |-> ci, hay |-> <<>>, hay2 |-> <<>>,
                s |-> 0, e |-> 0, an |-> FALSE]
    /\ pc = "new"
New ==
    /\ pc = "new"
    /\ \E hay \in SeqsUpTo(Sigma, MaxHay), an \in BOOLEAN :
         \E e \in 0..Len(hay) : \E s \in 0..(e + 1) :
         \* a second haystack that agrees with the first inside the span only
         \E x \in Sigma :
            cfg' = [cfg EXCEPT !.hay = hay, !.s = s, !.e = e, !.an = an,
                      !.hay2 = [i \in 1..Len(hay) |-> IF i > s /\ i <= e THEN hay[i] ELSE x]]
    /\ pc' = "chk"
Next == New
Spec == Init /\ [][Next]_vars

P == cfg.pats
InSpan(m) == m = None \/ (m[2] >= cfg.s /\ m[3] <= cfg.e /\ m[2] <= m[3])

SpanLocal == pc = "chk" =>
    /\ SpanLocalFind(P, cfg.kind, cfg.hay, cfg.s, cfg.e, cfg.ci, cfg.an)
    /\ SpanLocalIter(P, cfg.kind, cfg.hay, cfg.s, cfg.e, cfg.ci, cfg.an)
    /\ SpanLocalOverlap(P, cfg.hay, cfg.s, cfg.e, cfg.ci, cfg.an)
OutsideIrrelevant == pc = "chk" =>
    /\ FindOracle(P, cfg.kind, cfg.hay, cfg.s, cfg.e, cfg.ci, cfg.an)
         = FindOracle(P, cfg.kind, cfg.hay2, cfg.s, cfg.e, cfg.ci, cfg.an)
    /\ IterOracle(P, cfg.kind, cfg.hay, cfg.s, cfg.e, cfg.ci, cfg.an)
         = IterOracle(P, cfg.kind, cfg.hay2, cfg.s, cfg.e, cfg.ci, cfg.an)
    /\ OverlapOracle(P, cfg.hay, cfg.s, cfg.e, cfg.ci, cfg.an)
         = OverlapOracle(P, cfg.hay2, cfg.s, cfg.e, cfg.ci, cfg.an)
MatchesInSpan == pc = "chk" =>
    /\ InSpan(FindOracle(P, cfg.kind, cfg.hay, cfg.s, cfg.e, cfg.ci, cfg.an))
    /\ LET it == IterOracle(P, cfg.kind, cfg.hay, cfg.s, cfg.e, cfg.ci, cfg.an) IN
       \A j \in 1..Len(it) : InSpan(it[j])
    /\ cfg.s > cfg.e => FindOracle(P, cfg.kind, cfg.hay, cfg.s, cfg.e, cfg.ci, cfg.an) = None
(* the oracle's notion of existence is consistent across its operators *)
Consistent == pc = "chk" =>
    /\ (FindOracle(P, cfg.kind, cfg.hay, cfg.s, cfg.e, cfg.ci, cfg.an) # None)
         <=> IsMatchOracle(P, cfg.hay, cfg.s, cfg.e, cfg.ci, cfg.an)
    /\ (cfg.s <= cfg.e) => ((Occ(P, cfg.hay, cfg.s, cfg.e, cfg.ci, cfg.an) # {})
         <=> IsMatchOracle(P, cfg.hay, cfg.s, cfg.e, cfg.ci, cfg.an))
    /\ Len(OverlapOracle(P, cfg.hay, cfg.s, cfg.e, cfg.ci, cfg.an))
         = (IF cfg.s > cfg.e THEN 0 ELSE Cardinality(Occ(P, cfg.hay, cfg.s, cfg.e, cfg.ci, cfg.an)))

=============================================================================
