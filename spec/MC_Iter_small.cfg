SPECIFICATION Spec
CONSTANTS
  Sigma = {1, 2}
  MaxPats = 2
  MaxPatLen = 2
  MaxHay = 4
  Kinds = {"std", "lf", "ll"}
  CIs = {FALSE}
  Anchs = {FALSE, TRUE}
INVARIANTS IterCorrect StartValid AnchoredChain AnchoredStarts NonOverlapping
PROPERTY Progress
CHECK_DEADLOCK FALSE
