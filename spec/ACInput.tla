------------------------------ MODULE ACInput ------------------------------
(***************************************************************************)
(* `Input` (src/util/search.rs) as a state machine: the search             *)
(* configuration a caller builds up with set_span / set_start / set_end /   *)
(* set_range (every RangeBounds form) / anchored / earliest before handing  *)
(* it to a searcher.  The haystack length never changes; a setter either    *)
(* panics and leaves the configuration as it was (the assert precedes the   *)
(* assignment) or changes exactly the fields it names.                      *)
(*                                                                         *)
(* `Apply` is the single definition of a step: `Next` of this module and   *)
(* the replay in TraceInput.tla both use it.                               *)
(***************************************************************************)
EXTENDS Naturals, Sequences

CONSTANTS MaxLen,      \* haystack lengths 0..MaxLen
          MaxArg       \* setter arguments 0..MaxArg (beyond the haystack too)

\* an operation is <<name, a, b>>; unused arguments are 0
OpNames == {"set_span", "set_start", "set_end", "range", "range_incl", "range_from",
            "range_to", "range_to_incl", "range_full", "anchored", "earliest"}
Ops == OpNames \X (0..MaxArg) \X (0..MaxArg)

\* the assertion of Input::set_span (no wrap-around below 2^32 in the model)
ValidSpan(len, s, e) == e <= len /\ s <= e + 1

\* the span an operation asks for, given the current configuration
Wanted(c, op) ==
    CASE op[1] \in {"set_span", "range"} -> <<op[2], op[3]>>
      [] op[1] = "set_start"     -> <<op[2], c.en>>
      [] op[1] = "set_end"       -> <<c.st, op[2]>>
      [] op[1] = "range_incl"    -> <<op[2], op[3] + 1>>
      [] op[1] = "range_from"    -> <<op[2], c.len>>
      [] op[1] = "range_to"      -> <<0, op[2]>>
      [] op[1] = "range_to_incl" -> <<0, op[2] + 1>>
      [] op[1] = "range_full"    -> <<0, c.len>>
      [] OTHER                   -> <<c.st, c.en>>

\* result of a step: the outcome and the configuration afterwards
Apply(c, op) ==
    IF op[1] = "anchored" THEN [out |-> "ok", c |-> [c EXCEPT !.an = (op[2] # 0)]]
    ELSE IF op[1] = "earliest" THEN [out |-> "ok", c |-> [c EXCEPT !.ea = (op[2] # 0)]]
    ELSE LET w == Wanted(c, op) IN
         IF ValidSpan(c.len, w[1], w[2])
         THEN [out |-> "ok", c |-> [c EXCEPT !.st = w[1], !.en = w[2]]]
         ELSE [out |-> "panic", c |-> c]

IsDone(c) == c.st > c.en

Fresh(len) == [len |-> len, st |-> 0, en |-> len, an |-> FALSE, ea |-> FALSE]

VARIABLES cfg, last
vars == <<cfg, last>>

Init == \E n \in 0..MaxLen : cfg = Fresh(n) /\ last = "ok"
Next == \E op \in Ops : LET r == Apply(cfg, op) IN cfg' = r.c /\ last' = r.out
Spec == Init /\ [][Next]_vars

(* what every searcher relies on when it slices haystack[st..en]           *)
SpanInBounds == cfg.en <= cfg.len /\ cfg.st <= cfg.en + 1
(* a done configuration is exactly the one-past-the-end span that the       *)
(* iterators produce after an empty match at the end of the haystack        *)
DoneIsOnePast == IsDone(cfg) <=> cfg.st = cfg.en + 1
(* the haystack is never exchanged and a rejected setter changes nothing    *)
LenFixed == [][cfg'.len = cfg.len]_vars
PanicKeeps == [][last' = "panic" => cfg' = cfg]_vars
(* setters touch only the fields they name: the flags survive span changes  *)
FlagsKept == [][(cfg'.an # cfg.an \/ cfg'.ea # cfg.ea) => (cfg'.st = cfg.st /\ cfg'.en = cfg.en)]_vars
(* witness (expected to be violated when checked on its own): a done        *)
(* configuration is reachable                                                *)
NeverDone == ~IsDone(cfg)
=============================================================================
