------------------------------ MODULE ACShared ------------------------------
(***************************************************************************)
(* C17: a built searcher is immutable and every search is a function of    *)
(* the searcher and the call's own arguments.  Several clients (threads,   *)
(* or one thread at different times, possibly on clones) issue calls; a    *)
(* call begins and later returns, other clients' steps may interleave.     *)
(* No action changes `aut`; Return hands back FindRun(aut, args).  TLC     *)
(* explores every interleaving and checks that each returned value is the  *)
(* sequential oracle's value, i.e. independent of the schedule/history.    *)
(***************************************************************************)
EXTENDS ACRun, TLC

CONSTANTS Clients, Sigma, MaxPatLen, MaxHay, Kinds, CallsPerClient

VARIABLES aut,      \* [pats, kind, ci]: the shared searcher (and its clones)
          pending,  \* client -> the call in flight (or None)
          done,     \* client -> number of completed calls
          results   \* client -> sequence of <<call, result>>
vars == <<aut, pending, done, results>>
SeqsUpTo(S, n) == UNION {[1..k -> S] : k \in 0..n}

Init ==
    /\ \E p1, p2 \in SeqsUpTo(Sigma, MaxPatLen), kind \in Kinds :
          aut = [pats |-> <<p1, p2>>, kind |-> kind, ci |-> FALSE]
    /\ pending = [c \in Clients |-> None]
    /\ done = [c \in Clients |-> 0]
    /\ results = [c \in Clients |-> <<>>]

Begin(c) ==
    /\ pending[c] = None /\ done[c] < CallsPerClient
    /\ \E hay \in SeqsUpTo(Sigma, MaxHay), an \in BOOLEAN :
         pending' = [pending EXCEPT ![c] = <<hay, an>>]
    /\ UNCHANGED <<aut, done, results>>

Return(c) ==
    /\ pending[c] # None
    /\ LET call == pending[c]
           r == FindRun(aut.pats, aut.kind, aut.ci, call[1], 0, Len(call[1]), call[2], FALSE) IN
       results' = [results EXCEPT ![c] = Append(@, <<call, r>>)]
    /\ pending' = [pending EXCEPT ![c] = None]
    /\ done' = [done EXCEPT ![c] = @ + 1]
    /\ UNCHANGED aut

Next == \E c \in Clients : Begin(c) \/ Return(c)
Spec == Init /\ [][Next]_vars

Immutable == [][aut' = aut]_vars
Pure ==
    \A c \in Clients : \A j \in 1..Len(results[c]) :
        LET call == results[c][j][1] IN
        results[c][j][2] = FindOracle(aut.pats, aut.kind, call[1], 0, Len(call[1]), aut.ci, call[2])
(* equal calls get equal answers, whoever made them and whenever *)
Deterministic ==
    \A c, d \in Clients : \A i \in 1..Len(results[c]) : \A j \in 1..Len(results[d]) :
        results[c][i][1] = results[d][j][1] => results[c][i][2] = results[d][j][2]

=============================================================================
