SPECIFICATION Spec
CONSTANTS
  Sigma = {1, 2}
  MaxPats = 2
  MaxPatLen = 2
  MaxStream = 5
  CIs = {FALSE}
  CapExtra = {1, 2, 3}
  MaxFaults = 1
INVARIANTS ChunkConcat MatchPrefix Complete Indices NoFalseEof EofOnlyWhenReaderSaysSo FailedIsPrefix
CHECK_DEADLOCK FALSE
