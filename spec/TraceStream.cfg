SPECIFICATION TSpec
CONSTANTS
  Sigma = {1}
  MaxPats = 1
  MaxPatLen = 1
  MaxStream = 1
  CIs = {FALSE}
  CapExtra = {1}
  MaxFaults = 1
INVARIANTS TChunkConcat TMatchPrefix TComplete TIndices TNoFalseEof TEofOnly
CHECK_DEADLOCK FALSE
