// C06: the packed searchers (Rabin-Karp, slim Teddy 128/256, fat Teddy) in
// every variant that can be forced on this CPU. Recorded like the calls of
// calls.rs; TLC validates every result against the leftmost oracle.
use crate::common::*;
use crate::gen;
use aho_corasick::packed::{Config, MatchKind, Searcher};
use aho_corasick::Span;
use rand::{rngs::StdRng, Rng};
use serde_json::json;

pub const VARIANTS: [&str; 6] = ["default", "rk", "teddy", "slim128", "slim256", "fat256"];

pub fn build(pats: &Pats, mk: &str, variant: &str) -> Option<Searcher> {
    let mut c = Config::new();
    c.match_kind(if mk == "lf" { MatchKind::LeftmostFirst } else { MatchKind::LeftmostLongest });
    c.heuristic_pattern_limits(false);
    match variant {
        "default" => {
            c.heuristic_pattern_limits(true);
        }
        "rk" => {
            c.only_rabin_karp(true);
        }
        "teddy" => {
            c.only_teddy(true);
        }
        "slim128" => {
            c.only_teddy(true).only_teddy_fat(Some(false)).only_teddy_256bit(Some(false));
        }
        "slim256" => {
            c.only_teddy(true).only_teddy_fat(Some(false)).only_teddy_256bit(Some(true));
        }
        "fat256" => {
            c.only_teddy(true).only_teddy_fat(Some(true)).only_teddy_256bit(Some(true));
        }
        _ => panic!("bad variant"),
    }
    let mut b = c.builder();
    b.extend(pats.iter());
    b.build()
}

/// pattern lists that stress fingerprints and buckets
fn packed_lists(rg: &mut StdRng, which: usize) -> Pats {
    // bytes sharing low nybbles (0x?1) or high nybbles (0x6?)
    let same_lo = [0x11u8, 0x21, 0x31, 0x41, 0x61, 0x71, 0xA1, 0xF1];
    let same_hi = [0x60u8, 0x61, 0x62, 0x63, 0x64, 0x65, 0x6E, 0x6F];
    let pick = |rg: &mut StdRng, pool: &[u8], lo: usize, hi: usize| -> Vec<u8> {
        (0..rg.gen_range(lo..=hi)).map(|_| pool[rg.gen_range(0..pool.len())]).collect()
    };
    match which % 11 {
        // exact pattern counts around the limits that switch variants (slim/fat, pattern limits)
        10 => {
            let n = [16usize, 17, 32, 33, 64, 65, 127, 128][rg.gen_range(0..8)];
            (0..n).map(|i| vec![b'a' + (i % 13) as u8, b'A' + (i / 13) as u8, b'0' + (i % 7) as u8]).collect()
        }
        // long patterns (the Rabin-Karp hash window is the shortest pattern: 64-bit wrap-around)
        9 => {
            let base = [63usize, 64, 65, 66, 96, 129][rg.gen_range(0..6)];
            (0..rg.gen_range(1..=3)).map(|k| (0..base + k * 3).map(|j| b"abcdefgh"[(j * (k + 3) + j / 7) % 8]).collect()).collect()
        }
        // many patterns with byte-identical duplicates (ties must go to the first supplied)
        8 => {
            let words: Vec<Vec<u8>> = (0..rg.gen_range(7..=12)).map(|i| { let mut w = pick(rg, b"abcde", 2, 5); w.push(b'a' + i as u8); w }).collect();
            let mut v: Pats = vec![];
            for _ in 0..rg.gen_range(3..=4) { v.extend(words.iter().cloned()); }
            // in random order, interleaved with a few unrelated patterns of various lengths
            for _ in 0..rg.gen_range(0..=6) { v.push(pick(rg, b"vwxyz", 2, 9)); }
            use rand::seq::SliceRandom;
            v.shuffle(rg);
            v
        }
        0 => (0..rg.gen_range(1..=4)).map(|_| pick(rg, b"abc", 1, 5)).collect(),
        // colliding low nybbles: same bucket, different bytes
        1 => (0..rg.gen_range(2..=9)).map(|_| pick(rg, &same_lo, 1, 4)).collect(),
        2 => (0..rg.gen_range(2..=9)).map(|_| pick(rg, &same_hi, 2, 5)).collect(),
        // more than 8 / 16 distinct prefixes
        3 => (0..rg.gen_range(9..=20)).map(|i| { let mut p = vec![b'a' + (i % 26) as u8, b'A' + (i % 7) as u8]; p.extend(pick(rg, b"xyz", 0, 3)); p }).collect(),
        // prefixes of each other (semantic order matters)
        4 => {
            let base = pick(rg, b"abcd", 4, 8);
            let mut v: Pats = (1..=base.len()).map(|j| base[..j].to_vec()).collect();
            if rg.gen_bool(0.5) { v.reverse(); }
            v.push(pick(rg, b"abcd", 1, 3));
            v
        }
        // many patterns (up to 128)
        5 => (0..rg.gen_range(30..=128)).map(|i| { let mut p = vec![(i * 7 % 251) as u8, (i * 13 % 241) as u8]; p.extend(pick(rg, b"pq", 0, 2)); p }).collect(),
        // single-byte patterns mixed with long ones (mask length 1)
        6 => { let mut v: Pats = vec![vec![b'a'], vec![b'q']]; v.push(pick(rg, b"abq", 3, 9)); v }
        _ => { let pool = gen::POOLS[rg.gen_range(0..gen::POOLS.len())]; gen::random_pats_over(rg, pool, 6, 6, false) }
    }
}

pub struct PStats {
    pub contexts: usize,
    pub events: usize,
}

pub fn run(out_prefix: &str, shards: usize, seed: u64, scale: usize) -> PStats {
    let mut out = Out::create(out_prefix, shards);
    let mut st = PStats { contexts: 0, events: 0 };
    let mut rg = gen::rng(seed, 0x9AC0_0001);
    let mut shard = 0usize;
    for i in 0..(10 * scale) {
        let mut pats = packed_lists(&mut rg, if i % 10 == 7 { 9 } else if i % 10 == 3 { 10 } else { i });
        // the fingerprint length is min(4, shortest pattern): cycle the shortest length
        // through 1, 2, 3, 4, 5 by extending the patterns that are too short
        let want_min = 1 + i % 5;
        for p in pats.iter_mut() {
            while p.len() < want_min {
                let b = p[p.len() - 1].wrapping_add(p.len() as u8 * 17);
                p.push(b);
            }
        }
        for mk in ["lf", "ll"] {
            for variant in VARIANTS {
                let s = guarded(|| build(&pats, mk, variant));
                let (built, err) = match &s {
                    Ok(Some(_)) => (true, String::new()),
                    Ok(None) => (false, String::new()),
                    Err(p) => (false, p.clone()),
                };
                let c = Ctx::new(&pats, mk, "packed");
                let minlen = match &s { Ok(Some(s)) => s.minimum_len(), _ => 0 };
                let cl = out.put(shard, &json!({"ev":"ctx","ctx":c,"built":built || err.is_empty(),"err":err,
                    "kind":variant,"pf":"","pfi":{"variant":"none","bytes":[]},"minlen":minlen}));
                st.contexts += 1;
                let s = match s { Ok(Some(s)) => s, _ => { shard += 1; continue } };
                // haystack lengths around the vector widths; a planted match at every offset
                let alpha = gen::alphabet_of(&pats, false);
                let filler: Vec<u8> = alpha.iter().map(|&b| b ^ 0x10).chain(alpha.iter().map(|&b| b ^ 0x01)).collect();
                // lengths around the vector widths (16 / 32) plus the fingerprint length
                let lens: Vec<usize> = if scale > 1 { (0..=70).collect() } else {
                    (0..=4).chain(15..=21).chain(31..=38).chain(47..=51).chain(63..=69).collect()
                };
                let maxp = pats.iter().map(|p| p.len()).max().unwrap_or(0);
                let mut lens = lens.clone();
                if maxp > 40 {
                    lens = vec![maxp, maxp + 1, maxp + 5, maxp + 17, 2 * maxp + 9];
                }
                for &len in &lens {
                    let p = &pats[rg.gen_range(0..pats.len())];
                    // a planted match at every offset that is near a window boundary
                    // (relative to the start AND to the end), all offsets when thorough
                    let offs: Vec<usize> = if len >= p.len() {
                        let last = len - p.len();
                        (0..=last).filter(|&o| {
                            scale > 1 || len <= 20 || o % 16 <= 2 || o % 16 >= 14
                                || (len - o) % 16 <= 4 || last - o <= 3
                        }).collect()
                    } else { vec![0] };
                    for off in offs {
                        let mut h: Vec<u8> = (0..len).map(|_| filler[rg.gen_range(0..filler.len())]).collect();
                        if len >= p.len() {
                            h[off..off + p.len()].copy_from_slice(p);
                        }
                        // often a NEAR MISS instead of / in addition to the occurrence: the pattern with
                        // one byte altered (every index gets its turn), which a verification that
                        // skips or mis-compares some bytes would accept
                        if p.len() >= 2 && rg.gen_range(0..3) == 0 && len >= p.len() {
                            let k = (off + len) % p.len();
                            let o2 = if rg.gen_bool(0.5) { off } else { rg.gen_range(0..=(len - p.len())) };
                            h[o2..o2 + p.len()].copy_from_slice(p);
                            h[o2 + k] = h[o2 + k].wrapping_add(1 + (k as u8 % 3));
                        }
                        // sometimes a second, different pattern earlier/later
                        if rg.gen_range(0..3) == 0 {
                            let q = &pats[rg.gen_range(0..pats.len())];
                            if len >= q.len() {
                                let o2 = rg.gen_range(0..=(len - q.len()));
                                h[o2..o2 + q.len()].copy_from_slice(q);
                            }
                        }
                        let sp = if rg.gen_range(0..4) == 0 { gen::random_span(&mut rg, len) } else { (0, len) };
                        if sp.0 > sp.1 { continue; }
                        let mut calls = vec![];
                        let r = guarded(|| s.find_in(&h, Span { start: sp.0, end: sp.1 }));
                        match r {
                            Ok(m) => calls.push(json!(["find", false, false, "ok", crate::calls::om2v(&m), 0])),
                            Err(e) => calls.push(json!(["find", false, false, "panic", e, 0])),
                        }
                        if sp == (0, len) {
                            let r = guarded(|| s.find_iter(&h).collect::<Vec<_>>());
                            match r {
                                Ok(v) => calls.push(json!(["iter", false, false, "ok", v.iter().map(crate::calls::m2v).collect::<Vec<_>>(), 0])),
                                Err(e) => calls.push(json!(["iter", false, false, "panic", e, 0])),
                            }
                        }
                        st.events += calls.len();
                        out.put(shard, &json!({"ev":"multi","c":cl,"hay":h,"s":sp.0,"e":sp.1,"calls":calls}));
                    }
                }
                shard += 1;
            }
        }
    }
    out.finish();
    st
}
