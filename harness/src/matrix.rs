// C13: execute every cell of the configuration x API matrix on the real
// AhoCorasick and record ok / err / panic. TLC (TraceApi.tla) compares every
// cell with ACApi!Outcome and checks that the matrix is complete.
use crate::common::*;
use aho_corasick::{
    automaton::OverlappingState, AhoCorasick, AhoCorasickKind, Input, Match,
};
use serde_json::json;

const APIS: [&str; 21] = [
    "is_match", "find", "find_overlapping", "find_iter", "find_overlapping_iter",
    "replace_all", "replace_all_bytes", "replace_all_with", "replace_all_with_bytes",
    "stream_find_iter",
    "try_find", "try_find_overlapping", "try_find_iter", "try_find_overlapping_iter",
    "try_replace_all", "try_replace_all_bytes", "try_replace_all_with",
    "try_replace_all_with_bytes", "try_stream_find_iter", "try_stream_replace_all",
    "try_stream_replace_all_with",
];

fn classify<T, E>(r: Result<Result<T, E>, String>) -> &'static str {
    match r {
        Ok(Ok(_)) => "ok",
        Ok(Err(_)) => "err",
        Err(_) => "panic",
    }
}

/// returns (outcome of the call / construction, outcome of draining)
fn run_api(ac: &AhoCorasick, api: &str, hay: &str, an: bool, early: bool, sub: bool) -> (&'static str, &'static str) {
    let hb = hay.as_bytes();
    // the outcome may depend on neither the earliest flag nor the span of the input
    let input = || {
        let i = Input::new(hb).anchored(anch(an)).earliest(early);
        if sub && hb.len() >= 2 { i.span(1..hb.len() - 1) } else { i }
    };
    let n = ac.patterns_len();
    let reps: Vec<String> = (0..n).map(|i| format!("<{}>", i)).collect();
    let repb: Vec<Vec<u8>> = reps.iter().map(|s| s.as_bytes().to_vec()).collect();
    let na = "n/a";
    match api {
        "is_match" => (classify::<_, ()>(guarded(|| Ok(ac.is_match(input())))), na),
        "find" => (classify::<_, ()>(guarded(|| Ok(ac.find(input())))), na),
        "find_overlapping" => (
            classify::<_, ()>(guarded(|| {
                let mut st = OverlappingState::start();
                for _ in 0..(hb.len() * 4 + 4) {
                    ac.find_overlapping(input(), &mut st);
                    if st.get_match().is_none() {
                        break;
                    }
                }
                Ok(())
            })),
            na,
        ),
        "find_iter" => {
            let c = guarded(|| ac.find_iter(input()));
            match c {
                Err(_) => ("panic", na),
                Ok(it) => ("ok", classify::<_, ()>(guarded(|| Ok(it.count())))),
            }
        }
        "find_overlapping_iter" => {
            let c = guarded(|| ac.find_overlapping_iter(input()));
            match c {
                Err(_) => ("panic", na),
                Ok(it) => ("ok", classify::<_, ()>(guarded(|| Ok(it.count())))),
            }
        }
        "replace_all" => (classify::<_, ()>(guarded(|| Ok(ac.replace_all(hay, &reps)))), na),
        "replace_all_bytes" => {
            (classify::<_, ()>(guarded(|| Ok(ac.replace_all_bytes(hb, &repb)))), na)
        }
        "replace_all_with" => (
            classify::<_, ()>(guarded(|| {
                let mut dst = String::new();
                ac.replace_all_with(hay, &mut dst, |_: &Match, _, d| {
                    d.push('x');
                    true
                });
                Ok(dst)
            })),
            na,
        ),
        "replace_all_with_bytes" => (
            classify::<_, ()>(guarded(|| {
                let mut dst = vec![];
                ac.replace_all_with_bytes(hb, &mut dst, |_: &Match, _, d| {
                    d.push(b'x');
                    true
                });
                Ok(dst)
            })),
            na,
        ),
        "stream_find_iter" => {
            let c = guarded(|| ac.stream_find_iter(hb));
            match c {
                Err(_) => ("panic", na),
                Ok(it) => {
                    let d = guarded(|| {
                        for item in it {
                            if item.is_err() {
                                return Err(());
                            }
                        }
                        Ok(())
                    });
                    ("ok", classify(d))
                }
            }
        }
        "try_find" => (classify(guarded(|| ac.try_find(input()))), na),
        "try_find_overlapping" => (
            classify(guarded(|| {
                let mut st = OverlappingState::start();
                for _ in 0..(hb.len() * 4 + 4) {
                    ac.try_find_overlapping(input(), &mut st)?;
                    if st.get_match().is_none() {
                        break;
                    }
                }
                Ok::<(), aho_corasick::MatchError>(())
            })),
            na,
        ),
        "try_find_iter" => {
            let c = guarded(|| ac.try_find_iter(input()));
            match c {
                Err(_) => ("panic", na),
                Ok(Err(_)) => ("err", na),
                Ok(Ok(it)) => ("ok", classify::<_, ()>(guarded(|| Ok(it.count())))),
            }
        }
        "try_find_overlapping_iter" => {
            let c = guarded(|| ac.try_find_overlapping_iter(input()));
            match c {
                Err(_) => ("panic", na),
                Ok(Err(_)) => ("err", na),
                Ok(Ok(it)) => ("ok", classify::<_, ()>(guarded(|| Ok(it.count())))),
            }
        }
        "try_replace_all" => (classify(guarded(|| ac.try_replace_all(hay, &reps))), na),
        "try_replace_all_bytes" => {
            (classify(guarded(|| ac.try_replace_all_bytes(hb, &repb))), na)
        }
        "try_replace_all_with" => (
            classify(guarded(|| {
                let mut dst = String::new();
                ac.try_replace_all_with(hay, &mut dst, |_: &Match, _, d| {
                    d.push('x');
                    true
                })
            })),
            na,
        ),
        "try_replace_all_with_bytes" => (
            classify(guarded(|| {
                let mut dst = vec![];
                ac.try_replace_all_with_bytes(hb, &mut dst, |_: &Match, _, d| {
                    d.push(b'x');
                    true
                })
            })),
            na,
        ),
        "try_stream_find_iter" => {
            let c = guarded(|| ac.try_stream_find_iter(hb));
            match c {
                Err(_) => ("panic", na),
                Ok(Err(_)) => ("err", na),
                Ok(Ok(it)) => {
                    let d = guarded(|| {
                        for item in it {
                            if item.is_err() {
                                return Err(());
                            }
                        }
                        Ok(())
                    });
                    ("ok", classify(d))
                }
            }
        }
        "try_stream_replace_all" => (
            classify(guarded(|| {
                let mut w = vec![];
                ac.try_stream_replace_all(hb, &mut w, &repb)
            })),
            na,
        ),
        "try_stream_replace_all_with" => (
            classify(guarded(|| {
                let mut w = vec![];
                ac.try_stream_replace_all_with(hb, &mut w, |_: &Match, _, w| {
                    use std::io::Write;
                    w.write_all(b"x")
                })
            })),
            na,
        ),
        _ => unreachable!(),
    }
}

pub fn run(out_prefix: &str) -> usize {
    let mut out = Out::create(out_prefix, 1);
    // "pattern lists of the same shape": with / without the empty pattern; the lists vary in
    // everything else (no patterns at all, one pattern, duplicates, nesting, many patterns)
    let many: Vec<String> = (0..130).map(|i| format!("{}{}k", (b'!' + (i % 90) as u8) as char, i)).collect();
    let many_ref: Vec<&str> = many.iter().map(|x| x.as_str()).collect();
    let shapes_noempty: [&[&str]; 6] = [&["ab", "b"], &["xyz"], &["a", "ab", "abc", "c"], &[], &["dup", "dup", "du"], &many_ref];
    let shapes_empty: [&[&str]; 6] = [&["", "ab"], &["a", ""], &[""], &["", ""], &["ab", "", "ab", ""], &["", "q", "qq", "qqq"]];
    let hays = ["", "xabcab", "zzzz"];
    let mut cells = 0usize;
    for mk in MKS {
        for sk in SKS {
            for an in [false, true] {
                for empty in [false, true] {
                    for kind in ["nc", "c", "dfa", "auto"] {
                        let shapes = if empty { &shapes_empty } else { &shapes_noempty };
                        for (si, pats) in shapes.iter().enumerate() {
                            let mut b = AhoCorasick::builder();
                            b.match_kind(mk_of(mk)).start_kind(match sk {
                                "unanchored" => aho_corasick::StartKind::Unanchored,
                                "anchored" => aho_corasick::StartKind::Anchored,
                                _ => aho_corasick::StartKind::Both,
                            });
                            b.kind(match kind {
                                "nc" => Some(AhoCorasickKind::NoncontiguousNFA),
                                "c" => Some(AhoCorasickKind::ContiguousNFA),
                                "dfa" => Some(AhoCorasickKind::DFA),
                                _ => None,
                            });
                            let ac = b.build(pats.iter()).expect("matrix build");
                            for hay in hays {
                                for api in APIS {
                                    for (early, sub) in [(false, false), (true, false), (false, true)] {
                                        let (res, later) = run_api(&ac, api, hay, an, early, sub);
                                        out.put(0, &json!({"ev":"cell","api":api,"mk":mk,"sk":sk,
                                            "an":an,"empty":empty,"kind":kind,"shape":si,
                                            "hay":hay,"early":early,"sub":sub,"res":res,"later":later}));
                                        cells += 1;
                                    }
                                }
                            }
                        }
                    }
                }
            }
        }
    }
    out.finish();
    cells
}
