---------------------------- MODULE ACPrefilter ----------------------------
(***************************************************************************)
(* The prefilters of src/util/prefilter.rs as functions of (patterns,      *)
(* haystack, span): start bytes, rare bytes (with the per-byte maximum     *)
(* offset), memmem for a single pattern, packed (a confirmed leftmost      *)
(* match).  Which bytes the builder picks is a frequency heuristic; here   *)
(* it is nondeterminism constrained by ADMISSIBILITY: whatever the         *)
(* heuristic picks must be a sound choice.                                 *)
(*                                                                         *)
(* Sound(c) is exactly what ACSearch / ACOverlap assume of a probe, so     *)
(*   (every admissible prefilter is sound)  +  (the search loop is correct *)
(*   for every sound prefilter)  =>  prefilters are transparent (C05).     *)
(***************************************************************************)
EXTENDS ACBase

Max2(a, b) == IF a >= b THEN a ELSE b

(* candidates: <<"none">> | <<"possible", i>> | <<"match", <<k, s, e>>>> *)
Sound(P, K, ci, h, a, b, c) ==
    CASE c[1] = "none" -> \A j \in a..b : PatsAt(P, h, j, b, ci) = {}
      [] c[1] = "possible" ->
            /\ c[2] >= a /\ c[2] <= b
            /\ \A j \in a..(c[2] - 1) : PatsAt(P, h, j, b, ci) = {}
      [] c[1] = "match" -> c[2] = FindOracle(P, K, h, a, b, ci, FALSE)
      [] OTHER -> FALSE

RECURSIVE FirstIn(_, _, _, _)
FirstIn(S, h, i, b) ==          \* first offset in i..b-1 holding a byte of S, else -1
    IF i >= b THEN -1 ELSE IF h[i + 1] \in S THEN i ELSE FirstIn(S, h, i + 1, b)

CaseClosure(S) == S \cup {OppCase(x) : x \in S}
BytesOf(p) == {p[j] : j \in 1..Len(p)}

(* ---- start bytes: StartBytesBuilder ---- *)
StartSet(P, ci) ==
    LET F == {P[k][1] : k \in {x \in 1..Len(P) : Len(P[x]) > 0}} IN
    IF ci THEN CaseClosure(F) ELSE F
AdmStart(S, P, ci) ==
    /\ S = StartSet(P, ci) /\ Cardinality(S) <= 3 /\ Cardinality(S) >= 1
    /\ \A x \in S : x < 128
CandStart(S, h, a, b) ==
    LET i == FirstIn(S, h, a, b) IN
    IF i = -1 THEN <<"none">> ELSE <<"possible", i>>

(* ---- rare bytes: RareBytesBuilder ---- *)
(* set_offset: for every byte of every pattern, the largest position at    *)
(* which it occurs (both cases when case-insensitive)                      *)
OffOf(P, ci, x) ==
    LET pos == {j - 1 : j \in UNION {{i \in 1..Len(P[k]) :
                          IF ci THEN Fold(P[k][i]) = Fold(x) ELSE P[k][i] = x} : k \in 1..Len(P)}}
    IN IF pos = {} THEN 0 ELSE MaxOf(pos)
AdmRare(R, P, ci) ==
    /\ Cardinality(R) >= 1 /\ Cardinality(R) <= 3
    /\ (ci => R = CaseClosure(R))
    /\ \A k \in 1..Len(P) : Len(P[k]) < 256 /\ BytesOf(P[k]) \cap R # {}
CandRare(R, P, ci, h, a, b) ==
    LET p == FirstIn(R, h, a, b) IN
    IF p = -1 THEN <<"none">>
    ELSE <<"possible", Max2(a, p - OffOf(P, ci, h[p + 1]))>>

(* ---- memmem: exactly one pattern, case sensitive ---- *)
AdmMemmem(P, ci) == Len(P) = 1 /\ ~ci /\ Len(P[1]) > 0
CandMemmem(P, h, a, b) ==
    LET m == LeftmostFrom(P, "lf", h, a, b, b, FALSE) IN
    IF m = None THEN <<"none">> ELSE <<"match", m>>

(* ---- packed: leftmost kinds only, case sensitive, no empty pattern ---- *)
AdmPacked(P, K, ci) == K # "std" /\ ~ci /\ Len(P) >= 1
CandPacked(P, K, h, a, b) ==
    LET m == Leftmost(P, K, h, a, b, FALSE, FALSE) IN
    IF m = None THEN <<"none">> ELSE <<"match", m>>

(* no prefilter at all when there is an empty pattern or no pattern *)
PrefilterPossible(P) == Len(P) > 0 /\ \A k \in 1..Len(P) : Len(P[k]) > 0

=============================================================================
