------------------------------- MODULE ACIter -------------------------------
(***************************************************************************)
(* FindIter (src/automaton.rs): `next` = search, the empty-match rule of   *)
(* handle_overlapping_empty_match, then input.set_start(m.end()).  One     *)
(* action per call of `next`; every search it issues is ACRun!FindRun.     *)
(***************************************************************************)
EXTENDS ACRun, TLC

CONSTANTS Sigma, MaxPats, MaxPatLen, MaxHay, Kinds, CIs, Anchs

VARIABLES cfg,     \* [pats, kind, ci, hay, s, e, an]
          pc,      \* "new" | "iter" | "done"
          start,   \* input.start()
          last,    \* last_match_end (-1 = None)
          out      \* matches yielded so far
vars == <<cfg, pc, start, last, out>>

SeqsUpTo(S, n) == UNION {[1..k -> S] : k \in 0..n}

Init ==
    /\ \E pats \in SeqsUpTo(SeqsUpTo(Sigma, MaxPatLen), MaxPats), kind \in Kinds, ci \in CIs :
         cfg = [pats |-> pats, kind |-> kind, ci |-> ci, hay |-> <<>>,
                s |-> 0, e |-> 0, an |-> FALSE]
    /\ pc = "new" /\ start = 0 /\ last = -1 /\ out = <<>>

New ==
    /\ pc = "new"
    /\ \E hay \in SeqsUpTo(Sigma, MaxHay), an \in Anchs :
         \E e \in 0..Len(hay) : \E s \in 0..(e + 1) :
            /\ cfg' = [cfg EXCEPT !.hay = hay, !.s = s, !.e = e, !.an = an]
            /\ start' = s
    /\ pc' = "iter" /\ UNCHANGED <<last, out>>

Search(from) == FindRun(cfg.pats, cfg.kind, cfg.ci, cfg.hay, from, cfg.e, cfg.an, FALSE)

Yield(m) == /\ out' = Append(out, m) /\ start' = m[3] /\ last' = m[3]
            /\ UNCHANGED pc

NextCall ==
    /\ pc = "iter"
    /\ LET m == Search(start) IN
       IF m = None THEN pc' = "done" /\ UNCHANGED <<start, last, out>>
       ELSE IF m[2] = m[3] /\ m[3] = last
       THEN \* handle_overlapping_empty_match: set_start(start + 1), search again
            LET m2 == Search(start + 1) IN
            IF m2 = None THEN pc' = "done" /\ start' = start + 1 /\ UNCHANGED <<last, out>>
            ELSE Yield(m2)
       ELSE Yield(m)
    /\ UNCHANGED cfg

(* an exhausted iterator stays exhausted *)
Again ==
    /\ pc = "done"
    /\ Search(start) = None
    /\ UNCHANGED vars

Next == New \/ NextCall \/ Again
Spec == Init /\ [][Next]_vars

Oracle == IterOracle(cfg.pats, cfg.kind, cfg.hay, cfg.s, cfg.e, cfg.ci, cfg.an)

IsPrefixSeq(a, b) == Len(a) <= Len(b) /\ \A j \in 1..Len(a) : a[j] = b[j]

IterCorrect ==
    /\ pc = "iter" => IsPrefixSeq(out, Oracle)
    /\ pc = "done" => out = Oracle /\ Search(start) = None

(* set_start never receives an invalid span (it would panic) *)
StartValid == pc # "new" => start <= cfg.e + 1

(* C09: anchored iteration yields a chain of adjacent matches *)
HasEmpty == \E k \in 1..Len(cfg.pats) : cfg.pats[k] = <<>>
AnchoredChain ==
    (cfg.an /\ ~HasEmpty) =>
        \A j \in 1..Len(out) : out[j][2] = (IF j = 1 THEN cfg.s ELSE out[j - 1][3])
AnchoredStarts ==   \* with an empty pattern a match may start one byte later
    cfg.an => \A j \in 1..Len(out) :
        LET prev == IF j = 1 THEN cfg.s ELSE out[j - 1][3] IN
        out[j][2] = prev \/ (j > 1 /\ out[j][2] = prev + 1)

NonOverlapping ==
    \A j \in 2..Len(out) : out[j][2] >= out[j - 1][3]
                           /\ ~(out[j][2] = out[j][3] /\ out[j][2] = out[j - 1][3])

Progress == [][pc = "iter" /\ pc' = "iter" => start' > start \/ Len(out') > Len(out)]_vars

=============================================================================
