---------------------------- MODULE TraceSearch ----------------------------
(***************************************************************************)
(* Action-level trace validation of the REAL non-overlapping search loop   *)
(* (src/automaton.rs try_find_fwd_imp) against the step machine ACSearch   *)
(* (B3 for the search loop; C19 "advances monotonically", C05 "skipping    *)
(* ahead never passes over the true next match" at every probe the real    *)
(* search makes, C01/C02/C09/C14 results).                                 *)
(*                                                                         *)
(* IOEnv.TRACE: ndjson from `acverif steps`.  A "ctx" line describes a     *)
(* searcher; a "run" line is one call with the events hook H5 recorded:    *)
(*   ["P", k, a, b, c]    the prefilter call before the loop answered      *)
(*                        k = 0 none | 1 match (pattern a, span b..c)      *)
(*                          | 2 possible start a                           *)
(*   ["T", at]            one next_state call on the byte at offset `at`   *)
(*   ["Q", at, k, a]      the prefilter call made from the start state at  *)
(*                        offset `at` answered k = 0 none | 2 position a   *)
(* and the result.  Two things are decided on these events alone           *)
(* (property level): the offsets of the "T" events increase strictly and   *)
(* stay inside the span, there is at most one per byte (C19), and every    *)
(* prefilter answer is SOUND for the span it was asked about (C05).        *)
(* Beyond that each event must be the next action of ACSearch from the     *)
(* current specification state; a run whose events ACSearch cannot follow  *)
(* although the two rules above and the result are fine is DRIFT.          *)
(***************************************************************************)
EXTENDS ACSearch, Json, IOUtils

Rec == ndJsonDeserialize(IOEnv.TRACE)
Stripes == 16

VARIABLES t,       \* line
          l,       \* next event of the run
          lastT,   \* offset of the last "T" event (-1: none yet)
          ok       \* FALSE once ACSearch could not follow the events of this run
tvars == <<vars, t, l, lastT, ok>>

IsRun(tt) == tt <= Len(Rec) /\ Rec[tt].ev = "run"
(* a whole stepwise OVERLAPPING search recorded as one run: only the rules on the *)
(* events apply (ACOverlap is bound through call histories, see TraceCalls)       *)
IsOverlap(tt) == IsRun(tt) /\ "mode" \in DOMAIN Rec[tt] /\ Rec[tt].mode \in {"overlap", "iter"}
(* mode "iter": a whole non-overlapping iteration under STANDARD semantics (every search   *)
(* stops at its match and the next one starts there): the offsets increase over the whole *)
(* iteration                                                                               *)
E == Rec[t]
Ops == IF IsRun(t) THEN E.ops ELSE <<>>

Report(tag, why) == PrintT(tag \o " " \o ToJson([line |-> t, call |-> l, ev |-> "run", why |-> why]))

CfgOf(tt) ==
    IF IsRun(tt)
    THEN LET e == Rec[tt]  c == Rec[e.c].ctx IN
         [pats |-> c.pats, kind |-> c.mk, ci |-> c.ci, hay |-> e.hay, s |-> e.s, e |-> e.e,
          an |-> e.an, early |-> e.early, pre |-> Rec[e.c].haspre]
    ELSE [pats |-> <<>>, kind |-> "std", ci |-> FALSE, hay |-> <<>>, s |-> 0, e |-> 0,
          an |-> FALSE, early |-> FALSE, pre |-> FALSE]

StartPc(c) == IF c.s > c.e THEN "done" ELSE "start"      \* Begin (input.is_done()) inlined

Load(tt) ==
    /\ t' = tt /\ l' = 1 /\ lastT' = -1 /\ ok' = ~IsOverlap(tt)
    /\ cfg' = CfgOf(tt)
    /\ pc' = StartPc(CfgOf(tt)) /\ sid' = Root /\ at' = CfgOf(tt).s /\ mat' = None /\ res' = None
    /\ trans' = 0 /\ fails' = 0

TInit ==
    /\ t \in 1..(IF Len(Rec) < Stripes THEN Len(Rec) ELSE Stripes)
    /\ l = 1 /\ lastT = -1 /\ ok = ~IsOverlap(t)
    /\ cfg = CfgOf(t)
    /\ pc = StartPc(CfgOf(t)) /\ sid = Root /\ at = CfgOf(t).s /\ mat = None /\ res = None
    /\ trans = 0 /\ fails = 0

LoadNext ==
    /\ (t + Stripes > Len(Rec)) => PrintT("DONE " \o ToJson([stripe |-> t]))
    /\ Load(t + Stripes)

ToCand(o, off) ==      \* the prefilter answer logged in o[off..]
    CASE o[off] = 0 -> <<"none">>
      [] o[off] = 1 -> <<"match", <<o[off + 1] + 1, o[off + 2], o[off + 3]>>>>
      [] OTHER -> <<"possible", o[off + 1]>>

(* ---------------------- property-level rules on events ------------------ *)
(* (IF .. THEN TRUE ELSE Report: inside an action TLC evaluates both sides of a *)
(* disjunction)                                                                 *)
EventRulesOK(o) ==
    CASE o[1] = "T" ->
            /\ IF o[2] > lastT THEN TRUE
               ELSE Report("REJECT", "transition at offset " \o ToString(o[2]) \o " after one at offset "
                                     \o ToString(lastT) \o ": the search does not advance monotonically")
            /\ IF o[2] >= cfg.s /\ o[2] < cfg.e THEN TRUE
               ELSE Report("REJECT", "transition on the byte at offset " \o ToString(o[2]) \o " outside the span")
      \* C05: the answer does not pass over an occurrence; a confirmed match is the match
      \* the automaton would report
      [] o[1] = "P" ->
            IF ToCand(o, 2) \in SoundCands(cfg.s, cfg.e) THEN TRUE
            ELSE Report("REJECT", "the prefilter's answer " \o ToString(ToCand(o, 2)) \o " is unsound for the span")
      [] o[1] = "Q" ->
            \* the prefilter is asked about what lies AHEAD: its span starts at the byte just consumed
            \* (from which the start state was re-entered) or later, never before it
            /\ IF o[2] >= lastT THEN TRUE
               ELSE Report("REJECT", "the prefilter was asked about a span starting at offset " \o ToString(o[2])
                                     \o " although the search had advanced to offset " \o ToString(lastT)
                                     \o ": the search does not advance monotonically")
            /\ IF o[2] >= cfg.s /\ o[2] <= cfg.e /\ ToCand(o, 3) \in SoundCands(o[2], cfg.e) THEN TRUE
               ELSE Report("REJECT", "the prefilter's answer " \o ToString(ToCand(o, 3)) \o " from offset "
                                     \o ToString(o[2]) \o " is unsound")
      [] OTHER -> TRUE

(* --------------------- following ACSearch's actions --------------------- *)
Follow(o) ==
    \/ /\ o[1] = "P" /\ pc = "probe0" /\ Probe0 /\ UNCHANGED lastT
       /\ LET c == ToCand(o, 2) IN
          CASE c[1] = "none" -> pc' = "done" /\ res' = None
            [] c[1] = "match" -> pc' = "done" /\ res' = c[2]
            [] OTHER -> pc' = "loop" /\ at' = c[2]
    \/ /\ o[1] = "T" /\ pc = "loop" /\ at = o[2] /\ at < cfg.e /\ Step /\ lastT' = o[2]
    \/ /\ o[1] = "Q" /\ pc = "probe" /\ at = o[2] /\ Probe /\ UNCHANGED lastT
       /\ LET c == ToCand(o, 3) IN
          IF c[1] = "none" THEN pc' = "done" /\ res' = None
          ELSE pc' = "loop" /\ at' = (IF CandPos(c) > at THEN CandPos(c) ELSE at + 1)

(* one event: the rules are checked; ACSearch takes the matching action, or, when it *)
(* has none, the run is marked (once) and only the rules are checked from there on   *)
(* computing the start state is not an event: it is taken as soon as the run is loaded *)
SilentStart ==
    /\ IsRun(t) /\ ok /\ pc = "start" /\ Start
    /\ UNCHANGED <<t, l, lastT, ok>>

Consume ==
    /\ IsRun(t) /\ l <= Len(Ops) /\ ~(ok /\ pc = "start")
    /\ EventRulesOK(Ops[l])
    /\ l' = l + 1
    /\ IF ok /\ ENABLED Follow(Ops[l])
       THEN Follow(Ops[l]) /\ UNCHANGED ok
       ELSE /\ IF ok THEN Report("DRIFT", "ACSearch cannot follow event " \o ToString(Ops[l]) \o " at pc = "
                                           \o pc \o ", at = " \o ToString(at))
               ELSE TRUE
            /\ ok' = FALSE
            \* overlapping runs: ["C"] starts a call, ["N"] marks a call that reported nothing; once
            \* the search has reported nothing, each further call is a search of its own
            /\ lastT' = (IF Ops[l][1] = "T" THEN Ops[l][2]
                         ELSE IF Ops[l][1] = "C" /\ l > 1 /\ Ops[l - 1][1] = "N" THEN -1 ELSE lastT)
            /\ UNCHANGED vars
    /\ UNCHANGED t

(* the end of the events: the loop condition fails *)
Wind == pc = "loop" /\ at >= cfg.e /\ Step
WindStep ==
    /\ IsRun(t) /\ ok /\ l = Len(Ops) + 1 /\ Wind
    /\ UNCHANGED <<t, l, lastT, ok>>

ToM(r) == IF r = <<>> THEN None ELSE <<r[1] + 1, r[2], r[3]>>

ResultOK ==
    LET r == ToM(E.res) IN
    IF cfg.early /\ cfg.kind # "std"
    THEN EarliestOK(cfg.pats, cfg.kind, cfg.hay, cfg.s, cfg.e, cfg.ci, cfg.an, r)
    ELSE r = FindOracle(cfg.pats, cfg.kind, cfg.hay, cfg.s, cfg.e, cfg.ci, cfg.an)

FirstN == IF \E k \in 1..Len(Ops) : Ops[k][1] = "N"
          THEN CHOOSE k \in 1..Len(Ops) : Ops[k][1] = "N" /\ \A j \in 1..(k - 1) : Ops[j][1] # "N"
          ELSE Len(Ops) + 1
NumT == Len(SelectSeq(SubSeq(Ops, 1, FirstN - 1), LAMBDA o : o[1] = "T"))

TFinish ==
    /\ IsRun(t) /\ l = Len(Ops) + 1
    /\ IF ok THEN pc # "start" /\ ~ENABLED WindStep ELSE TRUE
    /\ IF E.out = "ok" /\ (IsOverlap(t) \/ ResultOK) THEN TRUE
       ELSE Report("REJECT", "result " \o ToString(E.res) \o " (" \o E.out \o ") differs from the oracle")
    /\ IF NumT <= (IF cfg.s <= cfg.e THEN cfg.e - cfg.s ELSE 0) THEN TRUE
       ELSE Report("REJECT", "more transitions than bytes in the span")
    /\ IF ~ok \/ E.out # "ok" \/ (pc = "done" /\ res = ToM(E.res)) THEN TRUE
       ELSE Report("DRIFT", "ACSearch ends at pc = " \o pc \o " with " \o ToString(res)
                            \o ", the real search returned " \o ToString(E.res))
    /\ LoadNext

Skip == /\ ~IsRun(t) /\ t <= Len(Rec) /\ LoadNext

TNext == SilentStart \/ Consume \/ WindStep \/ TFinish \/ Skip
TSpec == TInit /\ [][TNext]_tvars

(* ACSearch's invariants are evaluated in every state of the replay *)
TWork == IsRun(t) /\ ok => WorkBound
TInSpan == IsRun(t) /\ ok => InSpan
=============================================================================
