------------------------------ MODULE ACDfaBoth ------------------------------
(***************************************************************************)
(* dfa::Builder::finish_build_both_starts (src/dfa.rs): a DFA that serves  *)
(* unanchored AND anchored searches keeps, for every NFA state other than  *)
(* DEAD / FAIL / the two start states, two consecutive copies (unanchored, *)
(* anchored); each start state has one copy.  Rows are first filled with   *)
(* OLD (NFA) state ids and afterwards rewritten through remap_unanchored   *)
(* resp. remap_anchored depending on which copy the row belongs to; the    *)
(* special ids are taken from the anchored map.                            *)
(*                                                                         *)
(* The NFA is abstract: states 0..n-1 in the shuffled order                *)
(*   0 DEAD, 1 FAIL, 2..mm match states, then startU, startA, then others  *)
(* (both start states are match states as well when the empty pattern is   *)
(* present), `trie[s]` = the old ids its trie edges lead to (per class),   *)
(* `failto[s]` = where the failure walk ends for classes without an edge.  *)
(* Claims: every row entry of a copy names the right copy of the right     *)
(* state (TargetsOK); the id-comparison predicates is_match / is_special   *)
(* are exact for both copies (LayoutOK); start ids name the start copies.  *)
(***************************************************************************)
EXTENDS Integers, Sequences, FiniteSets, TLC

CONSTANTS MaxStates,
          Classes,    \* number of byte classes (alphabet_len)
          Stride2     \* stride = 2^Stride2 >= Classes: a state's id is its index << Stride2

DEAD == 0
FAIL == 1

VARIABLES n, nmatch, startsMatch, prefilter,   \* shape of the NFA
          trie, failto,                         \* its transitions (old ids)
          newid,       \* function: <<old, "u"|"a">> -> new state index (or -1 = none)
          rows,        \* new index -> [class -> new index]
          isAnch,      \* new index -> BOOLEAN
          maxMatch, maxSpecial, startU, startA, pc
vars == <<n, nmatch, startsMatch, prefilter, trie, failto, newid, rows, isAnch,
          maxMatch, maxSpecial, startU, startA, pc>>

OldStartU == 2 + nmatch
OldStartA == 3 + nmatch
IsOldMatch(s) == (s >= 2 /\ s < 2 + nmatch) \/ (startsMatch /\ s \in {OldStartU, OldStartA})
Plain(s) == s \notin {DEAD, FAIL, OldStartU, OldStartA}
OldMaxMatch == IF startsMatch THEN OldStartA ELSE 1 + nmatch
OldMaxSpecial == IF prefilter THEN OldStartA ELSE OldMaxMatch

(* the order in which new ids are handed out *)
RECURSIVE Assign(_, _, _)
Assign(s, next, acc) ==
    IF s >= n THEN acc
    ELSE IF s \in {DEAD, FAIL}
    THEN Assign(s + 1, next + 1, acc @@ (<<s, "u">> :> next) @@ (<<s, "a">> :> next))
    ELSE IF s = OldStartU
    THEN Assign(s + 1, next + 1, acc @@ (<<s, "u">> :> next) @@ (<<s, "a">> :> DEAD))
    ELSE IF s = OldStartA
    THEN Assign(s + 1, next + 1, acc @@ (<<s, "u">> :> DEAD) @@ (<<s, "a">> :> next))
    ELSE Assign(s + 1, next + 2, acc @@ (<<s, "u">> :> next) @@ (<<s, "a">> :> next + 1))

Init ==
    /\ n \in 4..MaxStates
    /\ nmatch \in 0..(n - 4) /\ startsMatch \in BOOLEAN /\ prefilter \in BOOLEAN
    \* trie edges never lead to DEAD, FAIL or a start state; the anchored start has the
    \* same edges as the unanchored one
    /\ trie \in [2..(n - 1) -> [0..(Classes - 1) ->
                    {FAIL} \cup ((2..(n - 1)) \ {2 + nmatch, 3 + nmatch})]]
    \* the anchored start has the edges of the unanchored start
    /\ trie[3 + nmatch] = trie[2 + nmatch]
    /\ failto \in [2..(n - 1) -> [0..(Classes - 1) -> {DEAD} \cup ((2..(n - 1)) \ {3 + nmatch})]]
    /\ newid = <<>> /\ rows = <<>> /\ isAnch = <<>>
    /\ maxMatch = 0 /\ maxSpecial = 0 /\ startU = 0 /\ startA = 0
    /\ pc = "build"

NewLen == (2 + 2) + 2 * (n - 4) - 0    \* DEAD, FAIL, two starts, two copies of the rest

(* first pass: rows hold OLD ids; second pass rewrites them per copy *)
OldRow(s, copy) ==
    [c \in 0..(Classes - 1) |->
        IF s \in {DEAD, FAIL} THEN DEAD
        ELSE IF ~Plain(s)
        THEN (IF trie[s][c] = FAIL THEN (IF s = OldStartA THEN DEAD ELSE s) ELSE trie[s][c])
             \* start states: the noncontiguous start rows have no FAIL entries for the
             \* unanchored start (self loop) and DEAD for the anchored one
        ELSE IF trie[s][c] # FAIL THEN trie[s][c]
        ELSE IF copy = "u" THEN failto[s][c] ELSE DEAD]

Build ==
    /\ pc = "build"
    /\ LET ids == Assign(0, 0, <<>>)
           owner == [x \in 0..(NewLen - 1) |->
                       CHOOSE k \in DOMAIN ids : ids[k] = x /\ (x # DEAD \/ k[1] = DEAD)] IN
       /\ newid' = ids
       /\ isAnch' = [x \in 0..(NewLen - 1) |-> owner[x][2] = "a" /\ owner[x][1] \notin {DEAD, FAIL}]
       /\ rows' = [x \in 0..(NewLen - 1) |->
                     LET s == owner[x][1]
                         cp == IF owner[x][2] = "a" /\ s \notin {DEAD, FAIL} THEN "a" ELSE "u"
                         old == OldRow(s, cp) IN
                     [c \in 0..(Classes - 1) |-> ids[<<old[c], cp>>]]]
       /\ maxSpecial' = ids[<<OldMaxSpecial, "a">>]
       /\ maxMatch' = ids[<<OldMaxMatch, "a">>]
       /\ startU' = ids[<<OldStartU, "u">>]
       /\ startA' = ids[<<OldStartA, "a">>]
    /\ pc' = "done"
    /\ UNCHANGED <<n, nmatch, startsMatch, prefilter, trie, failto>>

Next == Build
Spec == Init /\ [][Next]_vars

OwnerOf(x) == CHOOSE k \in DOMAIN newid : newid[k] = x /\ (x # DEAD \/ k[1] = DEAD)

(* every entry of an unanchored copy's row names an unanchored copy (or DEAD), every   *)
(* entry of an anchored copy's row an anchored copy (or DEAD), of the intended state  *)
TargetsOK ==
    pc = "done" =>
      \A x \in 2..(NewLen - 1) : \A c \in 0..(Classes - 1) :
        LET k == OwnerOf(x)  s == k[1]  cp == IF isAnch[x] THEN "a" ELSE "u"
            want == OldRow(s, cp)[c]
            got == rows[x][c] IN
        /\ got = newid[<<want, cp>>]
        /\ got # DEAD => OwnerOf(got)[1] = want /\ (isAnch[got] <=> cp = "a")

(* ---- premultiplied ids: the flat transition table the searches index ---- *)
Stride == 2 ^ Stride2
ASSUME Stride >= Classes
Sid(x) == x * Stride                      \* index << stride2
Idx(sid) == sid \div Stride               \* sid >> stride2
TransLen == NewLen * Stride               \* state_len << stride2
Flat ==      \* dfa.trans after the rewrite loop (which walks whole strides, padding included)
    [k \in 0..(TransLen - 1) |->
        IF (k % Stride) < Classes THEN Sid(rows[k \div Stride][k % Stride]) ELSE Sid(DEAD)]
NextState(sid, c) == Flat[sid + c]        \* DFA::next_state
(* matches: vec![vec![]; num_match_states] indexed by (sid >> stride2) - 2 *)
NumMatchSlots == (OldMaxMatch - 1) * 2

FlatOK ==
    pc = "done" =>
      \A x \in 0..(NewLen - 1) : \A c \in 0..(Classes - 1) :
        /\ Sid(x) + c < TransLen
        /\ NextState(Sid(x), c) = Sid(rows[x][c])
        /\ Idx(NextState(Sid(x), c)) = rows[x][c]
        \* rows of different states never share a table entry
        /\ \A y \in 0..(NewLen - 1) : \A d \in 0..(Classes - 1) :
              Sid(x) + c = Sid(y) + d => x = y /\ c = d
(* the id comparisons of the search loop work on premultiplied ids *)
PremultOrderOK ==
    pc = "done" =>
      \A x \in 0..(NewLen - 1) :
        /\ (Sid(x) <= Sid(maxMatch)) <=> (x <= maxMatch)
        /\ (Sid(x) <= Sid(maxSpecial)) <=> (x <= maxSpecial)
(* every match state has its own slot in `matches`, inside the vector *)
MatchSlotsOK ==
    pc = "done" =>
      \A x \in 2..(NewLen - 1) : x <= maxMatch =>
        /\ Idx(Sid(x)) - 2 >= 0 /\ Idx(Sid(x)) - 2 < NumMatchSlots

(* is_match(sid) == sid # DEAD /\ sid <= max_match_id ; is_special(sid) == sid <= max_special_id *)
LayoutOK ==
    pc = "done" =>
      /\ startU = newid[<<OldStartU, "u">>] /\ startA = newid[<<OldStartA, "a">>] /\ startA = startU + 1
      /\ \A x \in 2..(NewLen - 1) : IsOldMatch(OwnerOf(x)[1]) <=> x <= maxMatch
      /\ \A x \in 2..(NewLen - 1) :
            x <= maxSpecial <=> (IsOldMatch(OwnerOf(x)[1]) \/ (prefilter /\ x \in {startU, startA}))

=============================================================================
