SPECIFICATION Spec
INVARIANT Valid
INVARIANT Complete
CHECK_DEADLOCK FALSE
