------------------------------- MODULE ACRepr -------------------------------
(***************************************************************************)
(* The state encoding of nfa::contiguous (src/nfa/contiguous.rs):          *)
(*   State::write / write_sparse_trans / write_dense_trans   (Encode)      *)
(*   NFA::next_state's per-state lookup, State::match_len / match_pattern, *)
(*   State::len                                              (decoders)    *)
(* as functions over a sequence of words, with the claim                    *)
(*     decode(encode(state)) = state   for every state.                     *)
(* The real constants are ChunkSize = 4, MaxSparse = 127, KindOne = 0xFE,   *)
(* KindDense = 0xFF, alphabet <= 256; the model keeps their ORDER and       *)
(* arithmetic but shrinks them, so every threshold (chunk padding, sparse   *)
(* vs dense, the sentinels colliding with a transition count) is crossed.   *)
(* Words: the header is [k, c] (kind byte, class byte of a one-transition   *)
(* state), a class chunk is a tuple of ChunkSize classes, the match header  *)
(* is [hi, v] (bit 31, value); everything else is a plain number.           *)
(***************************************************************************)
EXTENDS Integers, Sequences, FiniteSets, TLC

CONSTANTS A,           \* alphabet_len (number of byte classes)
          ChunkSize, MaxSparse, KindOne, KindDense,
          NextIds,     \* possible targets of a transition
          Pids,        \* pattern ids
          MaxMatches

ASSUME MaxSparse < KindOne /\ KindOne < KindDense   \* what the code relies on

FAIL == 1

VARIABLES st,     \* abstract state: [trans, fail, matches, dense]
          words   \* its encoding
vars == <<st, words>>

SortedSeq(S) ==    \* the elements of a set of numbers in increasing order
    LET RECURSIVE go(_)
        go(T) == IF T = {} THEN <<>>
                 ELSE LET m == CHOOSE x \in T : \A y \in T : x <= y IN <<m>> \o go(T \ {m})
    IN go(S)

SeqsUpTo(S, n) == UNION {[1..k -> S] : k \in 0..n}
CeilDiv(a, b) == (a + b - 1) \div b

(* --------------------------------- encode -------------------------------- *)
KindOf(s) ==
    LET n == Cardinality(DOMAIN s.trans) IN
    IF s.dense \/ n > MaxSparse THEN KindDense
    ELSE IF n = 1 /\ s.matches = <<>> THEN KindOne
    ELSE n

Chunks(cls) ==     \* write_sparse_trans: groups of ChunkSize, the last padded by repeating
    LET n == Len(cls)  g == CeilDiv(n, ChunkSize) IN
    [i \in 1..g |-> [j \in 1..ChunkSize |->
        LET x == (i - 1) * ChunkSize + j IN IF x <= n THEN cls[x] ELSE cls[n]]]

MatchWords(ms) ==
    IF ms = <<>> THEN <<>>
    ELSE IF Len(ms) = 1 THEN <<[hi |-> TRUE, v |-> ms[1]]>>
    ELSE <<[hi |-> FALSE, v |-> Len(ms)]>> \o ms

Encode(s) ==
    LET kind == KindOf(s)
        cls == SortedSeq(DOMAIN s.trans) IN
    (IF kind = KindDense
     THEN <<[k |-> kind, c |-> 0], s.fail>>
          \o [x \in 1..A |-> IF (x - 1) \in DOMAIN s.trans THEN s.trans[x - 1] ELSE FAIL]
     ELSE IF kind = KindOne
     THEN <<[k |-> kind, c |-> cls[1]], s.fail, s.trans[cls[1]]>>
     ELSE <<[k |-> kind, c |-> 0], s.fail>> \o Chunks(cls)
          \o [x \in 1..Len(cls) |-> s.trans[cls[x]]])
    \o MatchWords(s.matches)

(* --------------------------------- decode -------------------------------- *)
(* repr[o + x] of the code is w[x + 1] here *)
Lookup(w, class) ==
    LET kind == w[1].k IN
    IF kind = KindDense THEN w[2 + class + 1]
    ELSE IF kind = KindOne THEN (IF class = w[1].c THEN w[3] ELSE FAIL)
    ELSE LET tl == kind
             cl == CeilDiv(tl, ChunkSize)
             off == 2 + cl
             hits == {<<i, j>> \in (1..cl) \X (1..ChunkSize) : w[2 + i][j] = class} IN
         IF hits = {} THEN FAIL
         ELSE LET h == CHOOSE h \in hits : \A g \in hits :
                            (h[1] - 1) * ChunkSize + h[2] <= (g[1] - 1) * ChunkSize + g[2]
              IN w[off + (h[1] - 1) * ChunkSize + (h[2] - 1) + 1]

MatchStart(w) ==
    IF w[1].k = KindDense THEN 2 + A
    ELSE LET tl == w[1].k IN 2 + CeilDiv(tl, ChunkSize) + tl
(* N.B. the code computes the same offset for a one-transition state from    *)
(* `sparse_trans_len` = the kind byte; a one-transition state never matches  *)
MatchLenOf(w) == LET p == w[MatchStart(w) + 1] IN IF p.hi THEN 1 ELSE p.v
MatchPatternOf(w, idx) ==
    LET p == w[MatchStart(w) + 1] IN IF p.hi THEN p.v ELSE w[MatchStart(w) + 1 + idx]

StateLen(w, ismatch) ==
    LET kind == w[1].k
        ct == IF kind = KindDense THEN <<0, A>>
              ELSE IF kind = KindOne THEN <<0, 1>>
              ELSE <<CeilDiv(kind, ChunkSize), kind>>
        ml == IF ~ismatch THEN 0 ELSE IF MatchLenOf(w) = 1 THEN 1 ELSE 1 + MatchLenOf(w)
    IN 2 + ct[1] + ct[2] + ml

(* -------------------------------- exploration ---------------------------- *)
Init ==
    /\ st \in {s \in [trans : UNION {[D -> NextIds] : D \in SUBSET (0..(A - 1))},
                      fail : {0, 2}, matches : SeqsUpTo(Pids, MaxMatches), dense : BOOLEAN] : TRUE}
    /\ words = Encode(st)
Next == UNCHANGED vars
Spec == Init /\ [][Next]_vars

LookupOK ==
    \A c \in 0..(A - 1) :
        Lookup(words, c) = (IF c \in DOMAIN st.trans THEN st.trans[c] ELSE FAIL)
FailOK == words[2] = st.fail
MatchesOK ==
    st.matches # <<>> =>
        /\ MatchLenOf(words) = Len(st.matches)
        /\ \A x \in 1..Len(st.matches) : MatchPatternOf(words, x) = st.matches[x]
LenOK == StateLen(words, st.matches # <<>>) = Len(words)
(* a one-transition state never carries matches (so its shorter layout is safe) *)
OneHasNoMatch == words[1].k = KindOne => st.matches = <<>>

=============================================================================
