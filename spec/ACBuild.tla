------------------------------ MODULE ACBuild ------------------------------
(***************************************************************************)
(* The IMPERATIVE construction of nfa::noncontiguous::Compiler, step by    *)
(* step, with the refinement claim                                          *)
(*     when it finishes, fail = ACAutomaton!Fail and matches = ACAutomaton!M*)
(* for every state.  (ACAutomaton defines the automaton declaratively; the *)
(* real automata are bound to ACAutomaton by Prod; this module binds the   *)
(* algorithm that the code runs - where defects F1 and F2 lived - to the   *)
(* same definitions, including the order dependence of the BFS.)           *)
(*                                                                         *)
(* Steps:                                                                   *)
(*   Insert      build_trie: one pattern per step (leftmost-first pruning  *)
(*               by saw_match, add_match on the final state)               *)
(*   StartLinks  fill_failure_transitions, first loop: one transition of   *)
(*               the start state per step (skip self loops and states seen *)
(*               already, copy the start state's matches when not          *)
(*               leftmost, DEAD failure link under leftmost when the state *)
(*               or the start state matches)                               *)
(*   Pop / Link  the BFS: pop a state, then one of its transitions per     *)
(*               step (skip seen, DEAD cut for leftmost match states, the  *)
(*               failure walk, copy_matches from the failure state)        *)
(* A state is the (folded) string that leads to it; transitions of a state *)
(* are visited in increasing byte order, both ASCII cases when case        *)
(* insensitive (two edges to the same state).                              *)
(***************************************************************************)
EXTENDS ACAutomaton, TLC

CONSTANTS Sigma, MaxPats, MaxPatLen, Kinds, CIs

VARIABLES raw,      \* pattern list as supplied
          kind, ci,
          pc,       \* "insert" | "start" | "pop" | "link" | "done"
          i,        \* next pattern to insert
          nodes,    \* set of states (strings); Root is always present
          own,      \* state -> sequence of pattern ids (add_match order)
          fail,     \* state -> state or DEAD
          mat,      \* state -> sequence of pattern ids (the match list)
          queue, seen,
          cur,      \* the state popped from the queue
          links     \* bytes of the transitions of `cur` (or of the start state) still to visit
vars == <<raw, kind, ci, pc, i, nodes, own, fail, mat, queue, seen, cur, links>>

SeqsUpTo(S, n) == UNION {[1..k -> S] : k \in 0..n}
P == IF ci THEN FoldAll(raw) ELSE raw
IsLeftmost == kind # "std"

(* bytes on which state t has a transition to a child, in increasing order *)
ChildBytes(t, N) ==
    SortAsc({b \in (Sigma \cup {OppCase(x) : x \in Sigma}) :
                Append(t, Feed(b, ci)) \in N /\ (ci \/ b \in Sigma)})
Child(t, b) == Append(t, Feed(b, ci))

Init ==
    /\ raw \in SeqsUpTo(SeqsUpTo(Sigma, MaxPatLen), MaxPats)
    /\ kind \in Kinds /\ ci \in CIs
    /\ pc = "insert" /\ i = 1
    /\ nodes = {Root} /\ own = (Root :> <<>>)
    /\ fail = (Root :> Root) /\ mat = (Root :> <<>>)
    /\ queue = <<>> /\ seen = {} /\ cur = Root /\ links = <<>>

(* build_trie for pattern i: walk it; under leftmost-first stop as soon as a *)
(* state on the way (before consuming the next byte) already has a match     *)
PrefixesOf(p) == {SubSeq(p, 1, n) : n \in 0..Len(p)}
SawMatch(p) == \E n \in 0..(Len(p) - 1) : SubSeq(p, 1, n) \in DOMAIN own /\ own[SubSeq(p, 1, n)] # <<>>
Insert ==
    /\ pc = "insert"
    /\ IF i > Len(P)
       THEN /\ pc' = "start" /\ links' = ChildBytes(Root, nodes)
            /\ mat' = own     \* match lists start as the own patterns (add_match)
            /\ UNCHANGED <<i, nodes, own, fail>>
       ELSE LET p == P[i] IN
            /\ i' = i + 1
            /\ IF kind = "lf" /\ SawMatch(p)
               THEN UNCHANGED <<nodes, own, fail>>
               ELSE LET new == PrefixesOf(p) \ nodes IN
                    /\ nodes' = nodes \cup new
                    /\ own' = [t \in nodes \cup new |->
                                 IF t = p THEN (IF t \in nodes THEN own[t] ELSE <<>>) \o <<i>>
                                 ELSE IF t \in nodes THEN own[t] ELSE <<>>]
                    /\ fail' = [t \in nodes \cup new |-> IF t \in nodes THEN fail[t] ELSE Root]
            /\ UNCHANGED <<pc, links, mat>>
    /\ UNCHANGED <<raw, kind, ci, queue, seen, cur>>

(* first loop of fill_failure_transitions: transitions out of the start state *)
StartLinks ==
    /\ pc = "start"
    /\ IF links = <<>>
       THEN pc' = "pop" /\ UNCHANGED <<links, queue, seen, fail, mat>>
       ELSE LET b == Head(links)  t == Child(Root, b) IN
            /\ links' = Tail(links)
            /\ IF t \in seen
               THEN UNCHANGED <<queue, seen, fail, mat>>
               ELSE /\ queue' = Append(queue, t) /\ seen' = seen \cup {t}
                    /\ mat' = IF ~IsLeftmost THEN [mat EXCEPT ![t] = @ \o mat[Root]] ELSE mat
                    /\ fail' = IF IsLeftmost /\ (mat[t] # <<>> \/ mat[Root] # <<>>)
                               THEN [fail EXCEPT ![t] = DEAD] ELSE fail
            /\ UNCHANGED pc
    /\ UNCHANGED <<raw, kind, ci, i, nodes, own, cur>>

Pop ==
    /\ pc = "pop"
    /\ IF queue = <<>>
       THEN pc' = "done" /\ UNCHANGED <<queue, cur, links>>
       ELSE /\ cur' = Head(queue) /\ queue' = Tail(queue)
            /\ links' = ChildBytes(Head(queue), nodes) /\ pc' = "link"
    /\ UNCHANGED <<raw, kind, ci, i, nodes, own, fail, mat, seen>>

(* follow_transition on the trie being built: the start state loops on every *)
(* byte without a child, the DEAD state loops on everything, other states    *)
(* have no transition (FAIL) unless a child exists                           *)
RECURSIVE WalkFail(_, _)
WalkFail(f, b) ==
    IF f = DEAD THEN DEAD
    ELSE IF Append(f, Feed(b, ci)) \in nodes THEN Append(f, Feed(b, ci))
    ELSE IF f = Root THEN Root
    ELSE WalkFail(fail[f], b)

Link ==
    /\ pc = "link"
    /\ IF links = <<>>
       THEN pc' = "pop" /\ UNCHANGED <<links, queue, seen, fail, mat>>
       ELSE LET b == Head(links)  t == Child(cur, b) IN
            /\ links' = Tail(links)
            /\ IF t \in seen
               THEN UNCHANGED <<queue, seen, fail, mat>>
               ELSE /\ queue' = Append(queue, t) /\ seen' = seen \cup {t}
                    /\ IF IsLeftmost /\ mat[t] # <<>>
                       THEN fail' = [fail EXCEPT ![t] = DEAD] /\ UNCHANGED mat
                       ELSE LET f == WalkFail(fail[cur], b) IN
                            /\ fail' = [fail EXCEPT ![t] = f]
                            /\ mat' = [mat EXCEPT ![t] = @ \o (IF f = DEAD THEN <<>> ELSE mat[f])]
            /\ UNCHANGED pc
    /\ UNCHANGED <<raw, kind, ci, i, nodes, own, cur>>

Next == Insert \/ StartLinks \/ Pop \/ Link
Spec == Init /\ [][Next]_vars

(* ------------------------------ refinement ------------------------------ *)
Refines ==
    pc = "done" =>
        /\ nodes = Nodes(P, kind)
        /\ \A t \in nodes : t # Root => fail[t] = Fail(P, kind, t)
        /\ \A t \in nodes : mat[t] = M(P, kind, t)
        /\ \A t \in nodes : own[t] = OwnSeq(P, kind, t)

(* breadth-first: a state's failure state was finalised before the state    *)
(* itself is visited (what makes copying its match list sound)              *)
FailSeenFirst ==
    \A t \in seen : (t \in DOMAIN fail /\ fail[t] # DEAD /\ fail[t] # Root) => fail[t] \in seen
QueueDepthSorted ==
    \A a, b \in 1..Len(queue) : a < b => Len(queue[a]) <= Len(queue[b])

=============================================================================
