// acverif: drives the real aho-corasick implementation and records what it
// does as ndjson for TLC. It contains no oracle.
mod calls;
mod common;
mod dump;
mod extra;
mod gen;
mod matrix;
mod packed;
mod steps;
mod stream;

use std::collections::HashMap;

fn args_map(args: &[String]) -> HashMap<String, String> {
    let mut m = HashMap::new();
    let mut i = 0;
    while i < args.len() {
        if let Some(k) = args[i].strip_prefix("--") {
            if i + 1 < args.len() && !args[i + 1].starts_with("--") {
                m.insert(k.to_string(), args[i + 1].clone());
                i += 2;
            } else {
                m.insert(k.to_string(), "true".to_string());
                i += 1;
            }
        } else {
            i += 1;
        }
    }
    m
}

fn main() {
    // a runaway allocation in the code under test must fail fast, not take
    // the machine down
    unsafe {
        let lim = libc::rlimit { rlim_cur: 12 << 30, rlim_max: 12 << 30 };
        libc::setrlimit(libc::RLIMIT_AS, &lim);
    }
    common::start_hang_monitor();
    let args: Vec<String> = std::env::args().collect();
    if args.len() < 2 {
        eprintln!("usage: acverif <dump|...> [--key value]...");
        std::process::exit(2);
    }
    let m = args_map(&args[2..]);
    let get = |k: &str, d: &str| m.get(k).cloned().unwrap_or_else(|| d.to_string());
    let seed: u64 = get("seed", "1").parse().unwrap();
    let shards: usize = get("shards", "1").parse().unwrap();
    let out = get("out", "/verif/work/out");
    if std::env::var("ACVERIF_LOUD").is_err() {
        common::quiet_panics();
    }
    let mks: Vec<&'static str> = get("mks", "std,lf,ll")
        .split(',')
        .map(|x| match x {
            "std" => "std",
            "lf" => "lf",
            "ll" => "ll",
            _ => panic!("bad mk"),
        })
        .collect();
    match args[1].as_str() {
        "dump" => {
            let fams: Vec<String> =
                get("families", "f23").split(',').map(|s| s.to_string()).collect();
            let full = get("full", "false") == "true";
            let st = dump::run(&out, shards, &fams, seed, full, &mks);
            println!(
                "{{\"automata\":{},\"states\":{},\"lists\":{}}}",
                st.automata, st.states, st.lists
            );
        }
        "calls" => {
            let fam = get("family", "enum");
            let scale: usize = get("scale", "1").parse().unwrap();
            let ans: Vec<bool> = match get("an", "both").as_str() {
                "no" => vec![false],
                "yes" => vec![true],
                _ => vec![false, true],
            };
            let flav: Vec<String> =
                get("flav", "all").split(',').map(|x| x.to_string()).collect();
            let f = calls::Filter { mks, ans, flav };
            let st = calls::run(&out, shards, &fam, seed, scale, &f);
            println!("{{\"contexts\":{},\"events\":{}}}", st.contexts, st.events);
        }
        "stream" => {
            let fam = get("family", "enum");
            let scale: usize = get("scale", "1").parse().unwrap();
            let faults = get("faults", "false") == "true";
            let maxstream: usize = get("maxstream", "4").parse().unwrap();
            let sizes: Vec<usize> =
                get("sizes", "1,2,3").split(',').map(|x| x.parse().unwrap()).collect();
            let rf = get("replay-file", "");
            let st = stream::run(&out, shards, &fam, seed, scale, faults, maxstream, &sizes, &rf);
            println!("{{\"contexts\":{},\"events\":{}}}", st.contexts, st.events);
        }
        "packed" => {
            let scale: usize = get("scale", "1").parse().unwrap();
            let st = packed::run(&out, shards, seed, scale);
            println!("{{\"contexts\":{},\"events\":{}}}", st.contexts, st.events);
        }
        "guard" => {
            let scale: usize = get("scale", "1").parse().unwrap();
            let poke = get("poke", "false") == "true";
            let n = extra::run_guard(&out, shards, seed, scale, poke);
            println!("{{\"events\":{}}}", n);
        }
        "threads" => {
            let scale: usize = get("scale", "1").parse().unwrap();
            let (c, e) = extra::run_threads(&out, shards, seed, scale);
            println!("{{\"contexts\":{},\"events\":{}}}", c, e);
        }
        "build" => {
            let scale: usize = get("scale", "1").parse().unwrap();
            let n = extra::run_build(&out, shards, seed, scale);
            println!("{{\"events\":{}}}", n);
        }
        "steps" => {
            let scale: usize = get("scale", "1").parse().unwrap();
            let (c, e) = steps::run(&out, shards, seed, scale, &mks);
            println!("{{\"contexts\":{},\"events\":{}}}", c, e);
        }
        "ids" => {
            let scale: usize = get("scale", "1").parse().unwrap();
            let (c, e) = extra::run_ids(&out, shards, seed, scale);
            println!("{{\"contexts\":{},\"events\":{}}}", c, e);
        }
        // self-test of the hang monitor: a guarded call that never returns
        "hang" => {
            common::set_case("{\"selftest\":\"hang\"}");
            let _ = common::guarded(|| loop {
                std::thread::sleep(std::time::Duration::from_millis(50));
            });
        }
        "inputops" => {
            let scale: usize = get("scale", "1").parse().unwrap();
            let n = extra::run_inputops(&out, shards, seed, scale);
            println!("{{\"events\":{}}}", n);
        }
        "matrix" => {
            let n = matrix::run(&out);
            println!("{{\"events\":{}}}", n);
        }
        other => {
            eprintln!("unknown subcommand {}", other);
            std::process::exit(2);
        }
    }
}
