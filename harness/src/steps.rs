// B3 for the search loop (C19, C05, C01/C02/C09/C14): every non-overlapping
// search records, through hook H5, each automaton transition (with the offset
// of the byte it consumed) and each prefilter call (span start and answer) in
// order; TLC (TraceSearch.tla) checks the events against the property-level
// rules and replays them through ACSearch's actions.
use crate::calls::{om2v, prefilter_info, prefilter_lists, Searcher};
use crate::common::*;
use crate::gen;
use aho_corasick::{Anchored, Input};
use rand::Rng;
use serde_json::{json, Value};

fn supported(c: &Ctx, an: bool) -> bool {
    match c.effective_sk() {
        "both" => true,
        "anchored" => an,
        _ => !an,
    }
}

fn one_run(s: &Searcher, cl: usize, hay: &[u8], sp: (usize, usize), an: bool, early: bool) -> Value {
    let limit = 4 * hay.len() + 64;
    let input = Input::new(hay)
        .span(sp.0..sp.1)
        .anchored(if an { Anchored::Yes } else { Anchored::No })
        .earliest(early);
    aho_corasick::verif::record_steps(limit);
    let g = guarded(|| s.try_find(input));
    let steps = aho_corasick::verif::take_steps();
    let (out, res) = match g {
        Ok(Ok(m)) => ("ok".to_string(), om2v(&m)),
        Ok(Err(e)) => ("err".to_string(), json!(e.to_string())),
        Err(p) => ("panic".to_string(), json!(p)),
    };
    let mut seen_t = false;
    let ops: Vec<Value> = steps
        .iter()
        .map(|e| {
            if e[0] == 1 {
                seen_t = true;
                json!(["T", e[1]])
            } else if !seen_t {
                json!(["P", e[2], e[3], e[4], e[5], e[1]])
            } else {
                json!(["Q", e[1], e[2], e[3], e[4], e[5]])
            }
        })
        .collect();
    json!({"ev":"run","c":cl,"hay":hay,"s":sp.0,"e":sp.1,"an":an,"early":early,"ops":ops,
           "out":out,"res":res,"full":steps.len() >= limit})
}

/// a whole stepwise overlapping search (until it reports nothing, plus two more calls) recorded as
/// ONE run: the transition offsets must increase over the whole history of the OverlappingState
fn overlap_run(s: &Searcher, cl: usize, hay: &[u8], sp: (usize, usize), an: bool) -> Value {
    use aho_corasick::automaton::OverlappingState;
    let limit = 8 * hay.len() + 64;
    let input = Input::new(hay).span(sp.0..sp.1).anchored(if an { Anchored::Yes } else { Anchored::No });
    let mut ops: Vec<Value> = vec![];
    let mut total = 0usize;
    let g = guarded(|| {
        let mut st = OverlappingState::start();
        let mut res: Vec<Value> = vec![];
        let mut extra = 0;
        loop {
            // one call = one batch of events; ["N"] marks a call that reported nothing
            aho_corasick::verif::record_steps(limit);
            let r = s.try_overlapping_step(&input, &mut st);
            let steps = aho_corasick::verif::take_steps();
            total += steps.len();
            ops.push(json!(["C"]));
            for e in steps.iter() {
                ops.push(if e[0] == 1 { json!(["T", e[1]]) } else { json!(["Q", e[1], e[2], e[3], e[4], e[5]]) });
            }
            r?;
            match st.get_match() {
                Some(m) => res.push(crate::calls::m2v(&m)),
                None => { extra += 1; ops.push(json!(["N"])); }
            }
            if extra > 2 || res.len() > (hay.len() + 2) * 64 {
                break;
            }
        }
        Ok::<_, aho_corasick::MatchError>(res)
    });
    let _ = aho_corasick::verif::take_steps();
    let (out, res) = match g {
        Ok(Ok(v)) => ("ok".to_string(), json!(v)),
        Ok(Err(e)) => ("err".to_string(), json!(e.to_string())),
        Err(p) => ("panic".to_string(), json!(p)),
    };
    let steps = vec![0u8; total];
    json!({"ev":"run","mode":"overlap","c":cl,"hay":hay,"s":sp.0,"e":sp.1,"an":an,"early":false,"ops":ops,
           "out":out,"res":res,"full":steps.len() >= limit})
}

/// a whole non-overlapping iteration (standard semantics: every search stops at its match, so the
/// next one starts where the last transition was made) recorded as ONE run
fn iter_run(s: &Searcher, cl: usize, hay: &[u8], sp: (usize, usize)) -> Value {
    let limit = 8 * hay.len() + 64;
    aho_corasick::verif::record_steps(limit);
    let g = guarded(|| s.try_iter(Input::new(hay).span(sp.0..sp.1)));
    let steps = aho_corasick::verif::take_steps();
    let (out, res) = match g {
        Ok(Ok(v)) => ("ok".to_string(), json!(v.iter().map(crate::calls::m2v).collect::<Vec<_>>())),
        Ok(Err(e)) => ("err".to_string(), json!(e.to_string())),
        Err(p) => ("panic".to_string(), json!(p)),
    };
    let ops: Vec<Value> = steps
        .iter()
        .map(|e| if e[0] == 1 { json!(["T", e[1]]) } else { json!(["Q", e[1], e[2], e[3], e[4], e[5]]) })
        .collect();
    json!({"ev":"run","mode":"iter","c":cl,"hay":hay,"s":sp.0,"e":sp.1,"an":false,"early":false,"ops":ops,
           "out":out,"res":res,"full":steps.len() >= limit})
}

pub fn run(out_prefix: &str, shards: usize, seed: u64, scale: usize, mks: &[&'static str]) -> (usize, usize) {
    let mut out = Out::create(out_prefix, shards);
    let mut rg = gen::rng(seed, 0x57E9_0001);
    let (mut nctx, mut nev) = (0usize, 0usize);
    let mut shard = 0usize;
    let mut ctx_line = |out: &mut Out, shard: usize, c: &Ctx, s: &Searcher| -> usize {
        // which prefilter the searcher carries: asked of the low-level automaton built with the
        // same options when the searcher is the top-level facade
        let pfi = match s {
            Searcher::Top(_) => {
                let mut lc = c.clone();
                lc.repr = "nc";
                match Searcher::build(&lc) { Ok(low) => prefilter_info(&low), Err(_) => prefilter_info(s) }
            }
            _ => prefilter_info(s),
        };
        out.put(shard, &json!({"ev":"ctx","ctx":c,"haspre":pfi["variant"] != "none","pfi":pfi}))
    };
    // exhaustive small: F(2,2) over {a,b} x kinds x haystacks <= 4 x all spans x anchoring x earliest
    let hays = gen::all_hays(b"ab", 4);
    for (pi, pats) in gen::family(b"ab", 2, 2).iter().enumerate() {
        if scale < 2 && pi % 2 == 1 {
            continue;
        }
        for &mk in mks {
            let mut c = Ctx::new(pats, mk, ["nc", "top-auto", "c", "dfa"][pi % 4]);
            c.pre = pi % 3 != 0;
            let s = match Searcher::build(&c) { Ok(s) => s, Err(_) => continue };
            let cl = ctx_line(&mut out, shard, &c, &s);
            nctx += 1;
            for h in &hays {
                for sp in gen::all_spans(h.len()) {
                    for an in [false, true] {
                        if !supported(&c, an) { continue; }
                        for early in [false, true] {
                            out.put(shard, &one_run(&s, cl, h, sp, an, early));
                            nev += 1;
                        }
                    }
                    if mk == "std" && sp.0 <= sp.1 {
                        for an in [false, true] {
                            if supported(&c, an) {
                                out.put(shard, &overlap_run(&s, cl, h, sp, an));
                                nev += 1;
                            }
                        }
                        if supported(&c, false) {
                            out.put(shard, &iter_run(&s, cl, h, sp));
                            nev += 1;
                        }
                    }
                }
            }
            shard += 1;
        }
    }
    // seeded: random lists and every prefilter variant under every match kind, long haystacks
    let reprs = ["nc", "c", "dfa", "top-auto", "top-nc", "top-c", "top-dfa"];
    for i in 0..(20 * mks.len() * scale) {
        let pats = if i % 2 == 0 { gen::random_pats(&mut rg, 6, 6) } else { prefilter_lists(&mut rg, i / 2) };
        let mk = mks[(i / 2 / 10) % mks.len()];
        let mut c = Ctx::new(&pats, mk, reprs[i % reprs.len()]);
        c.ci = rg.gen_range(0..4) == 0;
        c.pre = i % 2 == 1 || rg.gen_bool(0.6);
        let s = match Searcher::build(&c) { Ok(s) => s, Err(_) => continue };
        let cl = ctx_line(&mut out, shard, &c, &s);
        nctx += 1;
        for _ in 0..10 {
            let h = gen::random_hay(&mut rg, &pats, c.ci, if i % 2 == 1 { 90 } else { 48 });
            for k in 0..3 {
                let sp = if k == 0 { (0, h.len()) } else { gen::random_span(&mut rg, h.len()) };
                let an = rg.gen_range(0..4) == 0;
                if !supported(&c, an) { continue; }
                let early = rg.gen_range(0..3) == 0;
                out.put(shard, &one_run(&s, cl, &h, sp, an, early));
                nev += 1;
                if mk == "std" && sp.0 <= sp.1 {
                    for an2 in [false, true] {
                        if supported(&c, an2) {
                            out.put(shard, &overlap_run(&s, cl, &h, sp, an2));
                            nev += 1;
                        }
                    }
                    if supported(&c, false) {
                        out.put(shard, &iter_run(&s, cl, &h, sp));
                        nev += 1;
                    }
                }
            }
            // what a stale resume state would continue: p, stray byte, rest of q
            if mk == "std" && supported(&c, false) {
                for h in gen::stale_hays(&mut rg, &pats, 2) {
                    out.put(shard, &overlap_run(&s, cl, &h, (0, h.len()), false));
                    out.put(shard, &one_run(&s, cl, &h, (0, h.len()), false, false));
                    nev += 2;
                }
            }
        }
        shard += 1;
    }
    out.finish();
    (nctx, nev)
}
