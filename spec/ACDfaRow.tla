------------------------------ MODULE ACDfaRow ------------------------------
(***************************************************************************)
(* How dfa::Builder fills one row of the DFA transition table from a       *)
(* sparse NFA state: util/alphabet.rs ByteClassSet::byte_classes (classes  *)
(* are maximal runs of bytes between the boundaries set_range(b, b) puts   *)
(* around every pattern byte) and dfa.rs sparse_iter (walk the state's     *)
(* sorted transitions, fill the gaps and the tail with FAIL, call the      *)
(* closure once per class in ascending order).                             *)
(* Claim: the closure is called exactly once per class, in ascending       *)
(* order, with the transition target of that class (FAIL for classes the   *)
(* state has no transition on) - for every set of pattern bytes, every     *)
(* transition set over them, with and without byte classes.  The byte      *)
(* range is 0..MaxByte instead of 0..255 (the last byte is the interesting *)
(* one: the tail loop must include it).                                    *)
(***************************************************************************)
EXTENDS Integers, Sequences, FiniteSets, TLC

CONSTANTS MaxByte, NextIds
FAIL == 1
Bytes == 0..MaxByte

VARIABLES pb,      \* bytes that occur in patterns (both cases when case insensitive)
          useCls,  \* byte_classes option
          trans,   \* the state's transitions: function from a subset of pb to NextIds
          calls    \* the calls f(rep, class, next) made by sparse_iter, in order
vars == <<pb, useCls, trans, calls>>

(* ByteClassSet: set_range(b, b) sets a boundary after b-1 and after b *)
Boundaries == {b - 1 : b \in {x \in pb : x > 0}} \cup pb
ClassOf(b) == IF useCls THEN Cardinality({x \in Boundaries : x < b}) ELSE b
AlphabetLen == ClassOf(MaxByte) + 1

RECURSIVE SortedSeq(_)
SortedSeq(S) == IF S = {} THEN <<>>
                ELSE LET m == CHOOSE x \in S : \A y \in S : x <= y IN <<m>> \o SortedSeq(S \ {m})

(* sparse_iter: state of the loop is <<byte, prev_class, calls>>; prev = -1 is None *)
RECURSIVE Gap(_, _, _, _)
Gap(byte, upto, prev, acc) ==       \* while byte < upto: FAIL for every new class
    IF byte >= upto THEN <<byte, prev, acc>>
    ELSE LET c == ClassOf(byte) IN
         IF prev # c THEN Gap(byte + 1, upto, c, Append(acc, <<byte, c, FAIL>>))
         ELSE Gap(byte + 1, upto, prev, acc)
RECURSIVE Walk(_, _, _, _)
Walk(ts, byte, prev, acc) ==
    IF ts = <<>> THEN Gap(byte, MaxByte + 1, prev, acc)[3]      \* for b in byte..=MaxByte
    ELSE LET b == Head(ts)
             g == Gap(byte, b, prev, acc)
             c == ClassOf(b) IN
         IF g[2] # c THEN Walk(Tail(ts), b + 1, c, Append(g[3], <<b, c, trans[b]>>))
         ELSE Walk(Tail(ts), b + 1, g[2], g[3])
SparseIter == Walk(SortedSeq(DOMAIN trans), 0, -1, <<>>)

Init ==
    /\ pb \in SUBSET Bytes /\ useCls \in BOOLEAN
    /\ trans \in UNION {[D -> NextIds] : D \in SUBSET pb}
    /\ calls = SparseIter
Next == UNCHANGED vars
Spec == Init /\ [][Next]_vars

(* once per class, ascending *)
OncePerClass ==
    /\ Len(calls) = AlphabetLen
    /\ \A j \in 1..Len(calls) : calls[j][2] = j - 1
(* every byte's table entry is what the sparse state says *)
RowCorrect ==
    \A b \in Bytes :
        LET row == [c \in 0..(AlphabetLen - 1) |->
                       (CHOOSE call \in {calls[j] : j \in 1..Len(calls)} : call[2] = c)[3]] IN
        row[ClassOf(b)] = (IF b \in DOMAIN trans THEN trans[b] ELSE FAIL)
(* the representative byte handed to the closure belongs to the class *)
RepInClass == \A j \in 1..Len(calls) : ClassOf(calls[j][1]) = calls[j][2]
(* bytes of one class behave alike in the NFA state (why one call per class suffices) *)
ClassesRespectTransitions ==
    \A a, b \in Bytes : ClassOf(a) = ClassOf(b) /\ a # b => a \notin DOMAIN trans /\ b \notin DOMAIN trans

=============================================================================
