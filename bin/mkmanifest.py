#!/usr/bin/env python3
"""Generate /verif/MANIFEST.json from the table below (single source of truth)."""
import json
import os
import subprocess
import sys

VERIF = os.path.dirname(os.path.dirname(os.path.abspath(__file__)))
sys.path.insert(0, os.path.join(VERIF, "bin"))
import props  # noqa: E402

TRUST = ("TLC (explicit-state model checker) and the TLA+ CommunityModules Json reader; the Rust harness "
         "only drives the implementation and records (it has no oracle); the bounds listed in the evidence")

T = {
    "C01": dict(
        tech="TLA+ spec (ACBase oracle, ACAutomaton, ACBuild refinement of the imperative construction, ACSearch, ACIter) model-checked with TLC; product exploration of the real automata against the spec automaton (TLC); TLC trace validation of recorded find/find_iter calls",
        text="TLC exhausts the search and iterator machines against the declarative leftmost oracle for all pattern lists/haystacks/spans within small bounds (design level), explores the product of every dumped real automaton with the specification automaton to a fixed point (so all haystacks of every length for those automata), and validates recorded calls of the real API against the oracle.",
        ref="6 C01"),
    "C02": dict(
        tech="TLA+ spec (ACSearch/ACIter with kind=std) model-checked with TLC; product exploration (TLC); trace validation of calls",
        text="Same machinery as C01 for standard semantics: earliest-end/longest/first-supplied oracle; inherited match lists of every reachable state are compared with the specification's M().",
        ref="6 C02"),
    "C03": dict(
        tech="TLA+ spec ACOverlap (OverlappingState step machine with call history) and ACBuild (match-list inheritance of the imperative construction) model-checked with TLC; product exploration of match lists; trace validation of overlapping iterator and stepwise calls incl. calls past exhaustion",
        text="TLC explores every call history on one OverlappingState against the overlapping oracle (prefix, exactly once, stays None); the real per-state match lists are compared with the specification for every reachable state; real iterator/stepwise results are validated line by line.",
        ref="6 C03"),
    "C04": dict(
        tech="TLA+ refinement models of the storage and re-encodings (ACStore link chain + dense copy + byte classes of the noncontiguous NFA, ACRepr contiguous state encoding, ACContig layout + in-place id remap of the whole contiguous automaton, ACDfaRow byte classes + DFA row filling) model-checked with TLC; product exploration (bisimulation up to observations) of each real automaton representation/option with the one TLA+ specification automaton, by TLC; Debug-dump equality of the top-level searcher with the low-level automaton built with the same options; trace validation of identical calls through all kinds and the top-level searcher",
        text="Every representation (noncontiguous with 4 dense depths, contiguous with 6 dense-depth/byte-class settings, DFA with 3 start kinds x byte classes, with/without prefilter) is shown observationally equivalent to the same specification automaton on its entire reachable product, hence to each other for haystacks of every length; API-level calls through all seven kinds/entry levels are validated against the oracle.",
        ref="6 C04"),
    "C05": dict(
        tech="TLA+ decomposition checked with TLC: ACPrefilterMC (every admissible start-byte / rare-byte / memmem / packed prefilter answers every probe soundly) + ACSearch/ACOverlap with an abstract prefilter that may return ANY sound candidate; action-level trace validation (TraceSearch, hook H5) of every prefilter answer given during recorded searches; TLC trace validation of direct probes of the real prefilters, of which variant was built, and of prefilter on/off searches",
        text="Model: (admissible => sound) for all parameter choices within bounds, and the search/overlapping loops are correct for every sound candidate at every probe, so transparency holds for whatever the byte-frequency heuristic picks. Implementation: the variant actually built is read from the public Debug output, its direct find_in answers on generated haystacks/spans must be sound (property level) and equal the model's candidate (drift level), and searches with the option on and off are both validated against the oracle on haystacks up to 120/300 bytes with planted candidate bytes.",
        ref="6 C05"),
    "C06": dict(
        tech="TLA+ spec ACPacked (Teddy with symbolic vector width / bucket count / fingerprint length incl. carry, overlapping final window, Rabin-Karp fallback, half-width fallback; Rabin-Karp with arbitrary hash collisions) model-checked with TLC; TLC trace validation of packed::Searcher results for every forced variant with a planted match at every offset",
        text="The window arithmetic, bucket assignment, candidate over-approximation and (position, bucket, semantic order) verification are exhausted for small vector widths over all patterns/haystacks/spans against the leftmost oracle (PackedCorrect, Coverage, LoadInBounds). On this CPU (SSSE3+AVX2) Rabin-Karp, slim 128, slim 256, fat 256, only_teddy and the default are each run on haystacks of length 0..67 with a match planted at every offset, fillers sharing nybbles, colliding fingerprints, >8/>16 prefixes and up to 128 patterns; find_in and find_iter results are validated by TLC.",
        ref="6 C06", note=TRUST + "; SIMD lane semantics and the 64-bit hash arithmetic are not modelled bit-exactly (bound through results)"),
    "C07": dict(
        tech="TLA+ spec ACStream (Buffer fill/roll + StreamChunkIter, nondeterministic reader) model-checked with TLC over all read schedules and capacities; TLC-generated behaviours (GenStream) replayed into the real code and TLC trace validation of recorded runs (TraceStreamContract: the observable contract, deciding; TraceStream: step-by-step replay through ACStream, drift if only it fails) of the real stream search with scripted readers and hooked buffer capacity",
        text="TLC explores every read-size schedule for every small stream / pattern list / capacity min+{1,2,3,6} and checks that matches equal the in-memory iterator's (MatchPrefix, Complete) and the buffer indices never go wrong; every recorded run of the real StreamFindIter / stream replacement (exhaustive scripts on short streams at minimal capacities, seeded random longer ones up to the default capacity) is replayed action by action through the same specification, with all invariants evaluated at each step.",
        ref="6 C07", note=TRUST + "; hook H1 (buffer capacity override, cfg aho_corasick_verif) is the only instrumentation: reads, writes and closure calls are observed from outside"),
    "C08": dict(
        tech="TLA+ spec ACStream (chunk emission sites, ChunkConcat invariant) model-checked with TLC; TLC trace validation of every write/closure call of real try_stream_replace_all_with runs, with short-writing and interrupting writers (TraceStreamContract decides, TraceStream replays through ACStream); table replacement output compared with the in-memory replacement oracle by TLC",
        text="ChunkConcat (the concatenation of emitted chunks is the stream) and the match-chunk alignment are invariants over all schedules/capacities in the model; in the recorded runs each write is one non-match chunk and each closure call one match chunk, and each must be exactly the chunk the specification emits next; try_stream_replace_all outputs are validated against ReplaceOracle.",
        ref="6 C08", note=TRUST + "; hook H1 only"),
    "C09": dict(
        tech="TLA+ spec (ACSearch, ACIter, ACOverlap with anchored=TRUE) model-checked with TLC; product exploration in anchored mode; trace validation of anchored find/iter/stepwise-overlapping calls",
        text="Anchored find, iteration and stepwise overlapping are exhausted in the model against the anchored oracle; anchored walks of the real automata (NFA anchored start, DFA anchored copy) are product-explored; recorded anchored calls validated.",
        ref="6 C09"),
    "C10": dict(
        tech="TLC model checking of the oracle-level theorems (SpanLocal, OutsideIrrelevant, MatchesInSpan) and of ACSearch over all spans incl. start = end + 1; TLC trace validation of the span / mutated-outside / sub-slice triple of every search API; Input as a TLA+ state machine (ACInput) model-checked with TLC and bound by TLC replay of recorded setter histories (TraceInput)",
        text="The oracles read only haystack[start..end] (checked as theorems over all small inputs), the search machine is correct for every span, and on the real code each call is made on the span, on a copy whose outside bytes were replaced (including planted patterns straddling both boundaries) and on the sub-slice; all three are validated against the oracle, and every match must lie inside the span. The span itself is what the Input setters left behind: ACInput models every setter form, TLC checks that the span stays sliceable and that a setter changes only the fields it names, and recorded histories of setter calls on a real Input (with an empty-pattern search after each step) are replayed through the same step function.",
        ref="6 C10"),
    "C11": dict(
        tech="all operational TLA+ modules re-checked by TLC with ci = TRUE over an alphabet with a letter pair and '@'; product exploration of case-insensitive real automata (rows compared for all 256 bytes incl. @ [ ` {); trace validation of calls with mixed case, boundary bytes and bytes >= 0x80",
        text="Fold is the only place case enters the specification (exactly A-Z). ACSearch/ACIter/ACOverlap are exhausted with ci; every real case-insensitive automaton is bisimilar to the specification automaton built from folded patterns fed folded bytes, for every byte value; pattern identifiers of patterns differing only in case stay distinct (match lists compared).",
        ref="6 C11"),
    "C12": dict(
        tech="TLA+ spec ACReplace (splice loops for bytes and &str incl. the character-boundary skip and the closure returning false) model-checked with TLC; TLC trace validation of all replace entry points of the real code",
        text="ReplaceCorrect, SlicesOnBoundaries and OutputUtf8 are invariants over all small pattern lists (bytes that split a two-byte character, the empty pattern), haystacks, replacement tables and stop positions; recorded results of try_replace_all(_bytes) and try_replace_all_with(_bytes) through the top-level searcher and the three automaton types are validated against ReplaceOracle, panics are rejected.",
        ref="6 C12"),
    "C13": dict(
        tech="TLA+ total function ACApi!Outcome over the finite configuration space; TLC validates the executed matrix (every cell x every automaton kind) and its completeness",
        text="The configuration x API space is finite; every cell is executed on the real searcher for all four kinds under catch_unwind and TLC compares each with Outcome and checks that no cell is missing: exhaustive.",
        ref="6 C13"),
    "C14": dict(
        tech="TLA+ spec ACSearch with earliest mode (incl. abstract sound prefilters) model-checked with TLC; trace validation of is_match / earliest calls",
        text="EarliestOK and IsMatchAgrees are invariants of the search machine for all configurations within bounds; recorded is_match and earliest calls are validated against the same predicates.",
        ref="6 C14"),
    "C18": dict(
        tech="TLA+ spec ACStream with a failing reader/writer (every failure position x every schedule) model-checked with TLC; TLC trace validation (TraceStreamContract deciding, TraceStream replaying through ACStream) of real runs with injected read, write and closure failures of five io::ErrorKinds at every position",
        text="With MaxFaults=1 the model lets the reader fail at any read and the writer/closure at any emission; ChunkConcat/MatchPrefix/Indices hold in every reachable state including the failed ones and `done` requires a reader-reported end. Real runs with a failure injected at every read index and every emission index (short streams, exhaustive) and random positions (longer) must end with an error (never a panic) and replay through the specification.",
        ref="6 C18", note=TRUST + "; hook H1 only"),
    "C19": dict(
        tech="TLA+ spec ACSearch with transition / failure-step counters and the invariants WorkBound, PositionMonotone, FailShortens model-checked with TLC; TLC trace validation of the real counters (hooks) per call on adversarial pattern families; action-level trace validation (TraceSearch) of every transition offset and prefilter answer of recorded searches against ACSearch",
        text="In the model every step consumes one byte, fails + depth(state) <= transitions and every failure link strictly shortens, for all configurations within bounds (incl. prefilter skips). On the real code the hook counters of each call must satisfy transitions <= span length, failure steps <= transitions (0 for a DFA) - property level - and equal the model's exact counts where no prefilter is involved - drift level; a watchdog turns a non-terminating failure walk into a recorded panic.",
        ref="6 C19", note=TRUST + "; hooks H2/H4 (thread-local counters in the search loops and in both NFA next_state failure loops) and H5 (step recorder), cfg aho_corasick_verif"),
    "C15": dict(
        tech="TLA+ invariants LoadInBounds / MatchInSpan of ACPacked model-checked with TLC; exploration of the real code in a child process on haystacks placed flush against PROT_NONE pages (both sides), every crash attributed to its input; TLC validation of well-formedness (start <= end <= len, id < n) of every recorded match",
        text="The specification contributes the in-bounds window arithmetic for all lengths with small vector widths; the implementation is explored: all search/replace APIs with every prefilter variant and every packed variant on haystacks of each length 0..104 ending at (resp. starting after) an inaccessible page, with random bytes and patterns cut off by the end of the haystack. A SIGSEGV/SIGBUS/abort or a panic is a violation; all results are additionally validated against the oracle.",
        ref="6 C15", note="memory safety of unsafe Rust is outside what a TLA+ model proves; guard pages detect reads beyond either end of the slice (>= 1 byte), not reads inside the mapped pages but outside the slice; no sanitizer/Miri is used (other technique family)"),
    "C17": dict(
        tech="TLA+ spec ACShared (clients interleaving Begin/Return on an immutable searcher; frame condition aut' = aut) model-checked with TLC; TLC validation of per-thread call histories recorded from 2-16 real threads sharing one searcher and clones, plus sequential re-orderings",
        text="In the model no action changes the searcher and every return value is the oracle's value under all interleavings. On the real code threads start on a barrier and run shuffled call sequences on a shared Arc<AhoCorasick> and on clones; every result is validated against the oracle by TLC (so it equals the sequential one) and the searcher's complete Debug dump must be unchanged afterwards. Level: exploration of the schedules the OS produced.",
        ref="6 C17", note="TLC validates recorded histories; it cannot prove the absence of interior mutability in Rust source (a textual scan is recorded as an observation, it never decides)"),
    "C20": dict(
        tech="TLA+ ACApi (KindOK, MetaOK, AutoKind) evaluated by TLC on build records over the option product and shape-diverse collections; TLC validation that reported pattern ids are genuine occurrences / the oracle's ids; product exploration metadata check (MetaOK in Prod)",
        text="Every combination of requested kind x match kind x start kind x 4 option sets is built for collections of diverse shape (none, only empty, duplicates, all 256 bytes, 256-way fan-out, 300-byte pattern, 100/101 patterns, nested, random; thorough: thousands of patterns) under catch_unwind; TLC checks success, the honoured kind, patterns_len/min/max/per-pattern lengths/match kind/start kind, and that the id in a match names a pattern that occurs there. The automatic choice is compared with the model at drift level only.",
        ref="6 C20", note=TRUST + "; limit-exceeding collections (>= 2^24 states) are not attempted"),
    "C16": dict(
        tech="TLA+ models ACShuffle (special-state id layout, remapper) and ACDfaBoth (interleaved DFA copies, premultiplied ids) model-checked with TLC; product exploration of the real automata (all reachable states x all bytes x both anchoring arguments) with the TLA+ specification automaton by TLC; trace validation of the documented caller-written loop vs the built-in search",
        text="For each dumped automaton the local contract (dead absorbing, dead/match special, special => dead/match/start, valid non-empty match lists, start_state errors) is evaluated by TLC on every state of the closure under both anchoring arguments, and the consistent-mode product agrees with the specification; the documented recipe, run on the real automata, is validated against the oracle next to try_find.",
        ref="6 C16"),
}

NOT_YET = {}


def main():
    props_ids = [json.loads(l)["id"] for l in open(os.path.join(VERIF, "properties.jsonl"))]
    checks = []
    na = []
    for pid in props_ids:
        if pid in props.CHECKS and pid in T:
            level = props.CHECKS[pid][1]
            t = T[pid]
            checks.append({
                "property_id": pid,
                "quick_cmd": "bin/check %s --tier quick" % pid,
                "thorough_cmd": "bin/check %s --tier thorough" % pid,
                "evidence_file": "/verif/evidence/%s.json" % pid,
                "replay_cmd_template": "bin/check %s --replay {path}" % pid,
                "engine": "tlc",
                "level_claimed": {"category": level, "text": t["text"], "design_ref": "DESIGN.md section " + t["ref"]},
                "level_note": t.get("note", TRUST),
                "technique": t["tech"],
            })
        else:
            na.append({"property_id": pid,
                       "reason": NOT_YET.get(pid, "check not built yet in this round (planned, see DESIGN.md section 6); not claimed until it exists")})
    hooks_commits = subprocess.run(
        ["git", "-C", "/repo", "log", "--format=%h %s", "--grep", "^verif-hook"],
        stdout=subprocess.PIPE, text=True).stdout.strip().splitlines()
    m = {
        "version": 1,
        "setup_cmd": "bin/setup",
        "hooks": {
            "guard": "aho_corasick_verif",
            "enable": "RUSTFLAGS --cfg aho_corasick_verif (set in /verif/harness/.cargo/config.toml; the harness depends on /repo by path, so every check rebuilds the crate from the working tree with the hooks on)",
            "baseline_off_cmd": "cd /repo && cargo test --workspace --no-fail-fast --offline",
            "source_commits": [c.split()[0] for c in hooks_commits],
            "add_only": True,
        },
        "engines": [
            {"name": "tlc", "path": "/verif/spec", "serves_properties": [c["property_id"] for c in checks],
             "kind_free_text": "explicit TLA+ specification (spec/*.tla) model-checked with TLC; product exploration and trace validation of the real implementation by TLC; orchestrated by bin/check"},
            {"name": "apalache", "path": "/verif/spec/ACBufferIdx.tla", "serves_properties": ["C07", "C08"],
             "kind_free_text": "one integer TLA+ model (roll-buffer index arithmetic) whose inductive invariant is discharged symbolically by Apalache, next to the TLC checks of the same properties"},
        ],
        "checks": checks,
        "not_applicable": na,
        "notes": "All decisions are TLC evaluations of the TLA+ specification; see DESIGN.md. known_findings.json lists repaired defects (fix: commits in /repo).",
    }
    with open(os.path.join(VERIF, "MANIFEST.json"), "w") as f:
        json.dump(m, f, indent=1)
    print("MANIFEST.json: %d checks, %d not_applicable" % (len(checks), len(na)))


if __name__ == "__main__":
    main()
