------------------------------ MODULE TraceApi ------------------------------
(***************************************************************************)
(* Validation of the executed rejection matrix (C13) and of build/metadata *)
(* records (C20).  IOEnv.TRACE: ndjson written by `acverif matrix|build`.  *)
(*   {"ev":"cell","api":..,"mk":..,"sk":..,"an":..,"empty":..,             *)
(*    "kind":..,"shape":..,"res":"ok"|"err"|"panic","later":"ok"|...}      *)
(* `later` is what happened while draining an iterator that was            *)
(* constructed ("ok" if nothing failed; "n/a" if no iterator).             *)
(***************************************************************************)
EXTENDS ACApi, TLC, Json, IOUtils

Rec == ndJsonDeserialize(IOEnv.TRACE)
Stripes == 32

VARIABLE l
vars == <<l>>
Init == l \in 1..(IF Len(Rec) < Stripes THEN Len(Rec) ELSE Stripes)
Next == l + Stripes <= Len(Rec) /\ l' = l + Stripes
Spec == Init /\ [][Next]_vars

Reject(ev, why) == PrintT("REJECT " \o ToJson([line |-> l, call |-> 0, ev |-> ev, why |-> why]))

CellOK(E) ==
    LET exp == Outcome(E.api, E.mk, E.sk, E.an, E.empty) IN
    /\ E.res = exp \/ Reject("cell", "expected " \o exp \o ", observed " \o E.res)
    /\ E.later \in {"ok", "n/a"} \/ Reject("cell", "an iterator that was constructed failed later: " \o E.later)

BuildOK(E) ==
    /\ E.built \/ Reject("build", "build failed or panicked: " \o E.err)
    /\ E.built =>
        /\ KindOK(E.req, E.kind) \/ Reject("build", "requested kind not honoured: " \o E.kind)
        /\ MetaOK(E.lens, E.mk, E.sk, E) \/ Reject("build", "metadata does not mirror the input")
        /\ E.plens = E.lens \/ Reject("build", "per-pattern lengths differ")
        /\ (E.req # "auto" \/ E.kind = AutoKind(E.npat, E.sk))
              \/ PrintT("DRIFT " \o ToJson([line |-> l, why |-> "automatic kind differs from the model: " \o E.kind]))

EventOK(E) ==
    CASE E.ev = "cell" -> CellOK(E)
      [] E.ev = "build" -> BuildOK(E)
      [] OTHER -> Reject(E.ev, "unknown event")

Valid == EventOK(Rec[l])

(* completeness: every cell of the configuration space was executed for     *)
(* every automaton kind (justifies exhaustive = TRUE); evaluated once       *)
Executed == {<<Rec[j].api, Rec[j].mk, Rec[j].sk, Rec[j].an, Rec[j].empty, Rec[j].kind>> :
                j \in {x \in 1..Len(Rec) : Rec[x].ev = "cell"}}
Complete ==
    l = 1 => (\A c \in Cells : \A kd \in {"nc", "c", "dfa", "auto"} :
                 <<c[1], c[2], c[3], c[4], c[5], kd>> \in Executed)
             \/ Reject("matrix", "not every cell was executed")

=============================================================================
