// Shared plumbing: searcher configurations, building the real automata,
// JSON line output. Nothing in the harness decides a property: it drives the
// implementation and records what it did; TLC evaluates the specification.
use aho_corasick::{
    automaton::Automaton, dfa, nfa::contiguous, nfa::noncontiguous,
    AhoCorasick, AhoCorasickBuilder, AhoCorasickKind, Anchored, MatchKind,
    StartKind,
};
use serde::Serialize;
use std::io::Write;

pub type Pats = Vec<Vec<u8>>;

#[derive(Clone, Debug, Serialize, PartialEq, Eq, Hash)]
pub struct Ctx {
    pub pats: Vec<Vec<u8>>,
    /// "std" | "lf" | "ll"
    pub mk: &'static str,
    pub ci: bool,
    /// "nc" | "c" | "dfa" | "top-nc" | "top-c" | "top-dfa" | "top-auto"
    pub repr: &'static str,
    /// "unanchored" | "anchored" | "both"
    pub sk: &'static str,
    /// dense depth; -1 = builder default
    pub dd: i64,
    /// byte classes
    pub bc: bool,
    /// prefilter option
    pub pre: bool,
}

impl Ctx {
    pub fn new(pats: &Pats, mk: &'static str, repr: &'static str) -> Ctx {
        Ctx {
            pats: pats.clone(),
            mk,
            ci: false,
            repr,
            sk: "both",
            dd: -1,
            bc: true,
            pre: false,
        }
    }
    pub fn match_kind(&self) -> MatchKind {
        mk_of(self.mk)
    }
    pub fn start_kind(&self) -> StartKind {
        match self.sk {
            "unanchored" => StartKind::Unanchored,
            "anchored" => StartKind::Anchored,
            _ => StartKind::Both,
        }
    }
    /// what start kinds the *representation* offers: NFAs always both
    pub fn effective_sk(&self) -> &'static str {
        match self.repr {
            "nc" | "c" => "both",
            _ => self.sk,
        }
    }
}

pub fn mk_of(s: &str) -> MatchKind {
    match s {
        "std" => MatchKind::Standard,
        "lf" => MatchKind::LeftmostFirst,
        "ll" => MatchKind::LeftmostLongest,
        _ => panic!("bad match kind {}", s),
    }
}

pub const MKS: [&str; 3] = ["std", "lf", "ll"];
pub const SKS: [&str; 3] = ["unanchored", "anchored", "both"];

pub enum Aut {
    NC(noncontiguous::NFA),
    C(contiguous::NFA),
    D(dfa::DFA),
}

#[macro_export]
macro_rules! with_aut {
    ($aut:expr, $a:ident => $body:expr) => {
        match $aut {
            $crate::common::Aut::NC($a) => $body,
            $crate::common::Aut::C($a) => $body,
            $crate::common::Aut::D($a) => $body,
        }
    };
}

fn nc_builder(c: &Ctx) -> noncontiguous::Builder {
    let mut b = noncontiguous::NFA::builder();
    b.match_kind(c.match_kind())
        .ascii_case_insensitive(c.ci)
        .prefilter(c.pre);
    if c.dd >= 0 {
        b.dense_depth(c.dd as usize);
    }
    b
}

/// Build the low-level automaton a context names ("nc" | "c" | "dfa").
/// builds run under the hang monitor and with panics turned into data
pub fn build_low(c: &Ctx) -> Result<Aut, String> {
    set_case(&serde_json::to_string(c).unwrap_or_default());
    match guarded(|| build_low_imp(c)) {
        Ok(r) => r,
        Err(p) => Err(format!("panic: {}", p)),
    }
}

fn build_low_imp(c: &Ctx) -> Result<Aut, String> {
    match c.repr {
        "nc" => nc_builder(c)
            .build(&c.pats)
            .map(Aut::NC)
            .map_err(|e| e.to_string()),
        "c" => {
            let mut b = contiguous::NFA::builder();
            b.match_kind(c.match_kind())
                .ascii_case_insensitive(c.ci)
                .prefilter(c.pre)
                .byte_classes(c.bc);
            if c.dd >= 0 {
                b.dense_depth(c.dd as usize);
            }
            b.build(&c.pats).map(Aut::C).map_err(|e| e.to_string())
        }
        "dfa" => {
            let mut b = dfa::DFA::builder();
            b.match_kind(c.match_kind())
                .ascii_case_insensitive(c.ci)
                .prefilter(c.pre)
                .byte_classes(c.bc)
                .start_kind(c.start_kind());
            b.build(&c.pats).map(Aut::D).map_err(|e| e.to_string())
        }
        r => Err(format!("not a low-level repr: {}", r)),
    }
}

pub fn top_builder(c: &Ctx) -> AhoCorasickBuilder {
    let mut b = AhoCorasick::builder();
    b.match_kind(c.match_kind())
        .ascii_case_insensitive(c.ci)
        .prefilter(c.pre)
        .byte_classes(c.bc)
        .start_kind(c.start_kind());
    if c.dd >= 0 {
        b.dense_depth(c.dd as usize);
    }
    b.kind(match c.repr {
        "top-nc" | "nc" => Some(AhoCorasickKind::NoncontiguousNFA),
        "top-c" | "c" => Some(AhoCorasickKind::ContiguousNFA),
        "top-dfa" | "dfa" => Some(AhoCorasickKind::DFA),
        _ => None,
    });
    b
}

/// Build the top-level searcher for a context (any repr; low-level names are
/// mapped to the corresponding explicit kind).
pub fn build_top(c: &Ctx) -> Result<AhoCorasick, String> {
    set_case(&serde_json::to_string(c).unwrap_or_default());
    match guarded(|| top_builder(c).build(&c.pats).map_err(|e| e.to_string())) {
        Ok(r) => r,
        Err(p) => Err(format!("panic: {}", p)),
    }
}

pub fn anch(an: bool) -> Anchored {
    if an {
        Anchored::Yes
    } else {
        Anchored::No
    }
}

pub fn kind_name(k: AhoCorasickKind) -> &'static str {
    match k {
        AhoCorasickKind::NoncontiguousNFA => "nc",
        AhoCorasickKind::ContiguousNFA => "c",
        AhoCorasickKind::DFA => "dfa",
        _ => "?",
    }
}

/// ndjson writer that can shard lines round-robin by *group* over N files.
pub struct Out {
    files: Vec<std::io::BufWriter<std::fs::File>>,
    pub lines: Vec<usize>,
}

impl Out {
    pub fn create(prefix: &str, shards: usize) -> Out {
        let mut files = vec![];
        for i in 0..shards {
            let p = format!("{}.{}.ndjson", prefix, i);
            files.push(std::io::BufWriter::new(
                std::fs::File::create(&p).expect("create output"),
            ));
        }
        Out { files, lines: vec![0; shards] }
    }
    pub fn shards(&self) -> usize {
        self.files.len()
    }
    /// Returns the 1-based line number of the line within its shard.
    pub fn put<T: Serialize>(&mut self, shard: usize, v: &T) -> usize {
        let s = shard % self.files.len();
        serde_json::to_writer(&mut self.files[s], v).unwrap();
        self.files[s].write_all(b"\n").unwrap();
        self.lines[s] += 1;
        self.lines[s]
    }
    pub fn finish(mut self) -> Vec<usize> {
        for f in self.files.iter_mut() {
            f.flush().unwrap();
        }
        self.lines
    }
}

// ---- hang monitor -----------------------------------------------------
// A call into the code under test that does not come back is data about that
// code, not a tool failure: a monitor thread notices that some guarded call
// has been running for longer than the limit while nothing else made
// progress, prints the case and ends the process with exit code 97.
use std::sync::atomic::{AtomicI64, AtomicU64, Ordering};
static ACTIVE: AtomicI64 = AtomicI64::new(0);
static LAST_PROGRESS_MS: AtomicU64 = AtomicU64::new(0);
static CASE: std::sync::Mutex<String> = std::sync::Mutex::new(String::new());

fn now_ms() -> u64 {
    use std::time::{SystemTime, UNIX_EPOCH};
    SystemTime::now().duration_since(UNIX_EPOCH).map(|d| d.as_millis() as u64).unwrap_or(0)
}

/// what the process is working on (shown when a call never returns)
pub fn set_case(desc: &str) {
    if let Ok(mut c) = CASE.lock() {
        c.clear();
        c.push_str(&desc[..desc.len().min(4000)]);
    }
}

pub fn start_hang_monitor() {
    let limit_ms: u64 = std::env::var("ACVERIF_CALL_LIMIT_S").ok().and_then(|v| v.parse().ok()).unwrap_or(120) * 1000;
    LAST_PROGRESS_MS.store(now_ms(), Ordering::SeqCst);
    std::thread::spawn(move || loop {
        std::thread::sleep(std::time::Duration::from_millis(500));
        if ACTIVE.load(Ordering::SeqCst) > 0 && now_ms().saturating_sub(LAST_PROGRESS_MS.load(Ordering::SeqCst)) > limit_ms {
            let case = CASE.lock().map(|c| c.clone()).unwrap_or_default();
            eprintln!("HANG {}", serde_json::json!({"limit_s": limit_ms / 1000, "case": case}));
            std::process::exit(97);
        }
    });
}

/// Run a closure, turning a panic of the code under test into data.
pub fn guarded<T>(f: impl FnOnce() -> T) -> Result<T, String> {
    ACTIVE.fetch_add(1, Ordering::SeqCst);
    LAST_PROGRESS_MS.store(now_ms(), Ordering::SeqCst);
    let r = std::panic::catch_unwind(std::panic::AssertUnwindSafe(f));
    ACTIVE.fetch_sub(1, Ordering::SeqCst);
    LAST_PROGRESS_MS.store(now_ms(), Ordering::SeqCst);
    r.map_err(|e| {
        if let Some(s) = e.downcast_ref::<&str>() {
            s.to_string()
        } else if let Some(s) = e.downcast_ref::<String>() {
            s.clone()
        } else {
            "panic".to_string()
        }
    })
}

pub fn quiet_panics() {
    std::panic::set_hook(Box::new(|_| {}));
}

#[allow(dead_code)]
pub fn automaton_kind_name<A: Automaton>(_a: &A) -> &'static str {
    std::any::type_name::<A>()
}
