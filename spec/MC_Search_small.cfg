SPECIFICATION Spec
CONSTANTS
  Sigma = {1, 2}
  MaxPats = 2
  MaxPatLen = 2
  MaxHay = 4
  Kinds = {"std", "lf", "ll"}
  CIs = {FALSE}
  Anchs = {FALSE, TRUE}
  Earlies = {FALSE, TRUE}
  Pres = {FALSE, TRUE}
INVARIANTS Correct IsMatchAgrees InSpan WorkBound SkipOnlyFromStart TypeOK Lemmas
PROPERTY PositionMonotone
CHECK_DEADLOCK FALSE
