SPECIFICATION TSpec
CONSTANT MaxLen = 6
CONSTANT MaxArg = 9
INVARIANT Valid
CHECK_DEADLOCK FALSE
