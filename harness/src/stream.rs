// Streams (C07, C08, C18): run the real stream search / replacement with a
// scripted reader (exact read sizes, optional failure at a chosen call), a
// recording writer / closure (optional failure), and a chosen roll-buffer
// capacity (hook H1). Everything observable is recorded in order:
//   ["r", free, n]            Read::read was offered `free` bytes, returned n
//   ["rfail", free]           ... returned an error
//   ["w", [bytes]]            one Write::write call, everything accepted
//   ["ws", [bytes], n]        ... only the first n bytes accepted (a short write)
//   ["wintr", [bytes]]        ... failed with ErrorKind::Interrupted (write_all retries)
//   ["wfail", [bytes]]        ... that the writer refused
//   ["m", pid, s, e, [bytes]] closure call / ["mfail", ...] closure error
//   ["y", pid, s, e]          StreamFindIter yielded a match, ["yerr"] an error
// TLC (TraceStream.tla) replays each recorded run through ACStream's actions.
use crate::common::*;
use crate::gen;
use aho_corasick::AhoCorasick;
use rand::Rng;
use serde_json::{json, Value};
use std::cell::RefCell;
use std::io;
use std::rc::Rc;

type Log = Rc<RefCell<Vec<Value>>>;

struct ScriptedReader {
    data: Vec<u8>,
    pos: usize,
    /// exact: the script is the whole schedule (calls beyond it return 0)
    exact: bool,
    script: Vec<usize>,
    calls: usize,
    fail_at: Option<usize>,
    fail_kind: usize,
    log: Log,
}

/// the kinds of failure a reader / writer / closure is made to report
pub const KINDS: [io::ErrorKind; 5] = [
    io::ErrorKind::Other,
    io::ErrorKind::Interrupted,
    io::ErrorKind::WouldBlock,
    io::ErrorKind::UnexpectedEof,
    io::ErrorKind::BrokenPipe,
];

impl io::Read for ScriptedReader {
    fn read(&mut self, buf: &mut [u8]) -> io::Result<usize> {
        let k = self.calls;
        self.calls += 1;
        if self.fail_at == Some(k) {
            self.log.borrow_mut().push(json!(["rfail", buf.len(), self.fail_kind]));
            return Err(io::Error::new(KINDS[self.fail_kind % KINDS.len()], "injected read failure"));
        }
        let want = if self.exact {
            *self.script.get(k).unwrap_or(&0)
        } else if self.script.is_empty() {
            buf.len()
        } else {
            self.script[k % self.script.len()]
        };
        let n = want.min(buf.len()).min(self.data.len() - self.pos);
        buf[..n].copy_from_slice(&self.data[self.pos..self.pos + n]);
        self.pos += n;
        self.log.borrow_mut().push(json!(["r", buf.len(), n]));
        Ok(n)
    }
}

struct RecWriter {
    calls: usize,
    fail_at: Option<usize>,
    fail_kind: usize,
    /// how many bytes each successful call accepts at most (cyclic; empty = everything)
    accept: Vec<usize>,
    accepted_calls: usize,
    log: Log,
    out: Vec<u8>,
}

impl io::Write for RecWriter {
    fn write(&mut self, buf: &[u8]) -> io::Result<usize> {
        let k = self.calls;
        self.calls += 1;
        if self.fail_at == Some(k) {
            let kind = KINDS[self.fail_kind % KINDS.len()];
            // io::Write::write_all retries a write that was interrupted
            let tag = if kind == io::ErrorKind::Interrupted { "wintr" } else { "wfail" };
            self.log.borrow_mut().push(json!([tag, buf]));
            return Err(io::Error::new(kind, "injected write failure"));
        }
        let n = if self.accept.is_empty() || buf.is_empty() {
            buf.len()
        } else {
            let a = self.accept[self.accepted_calls % self.accept.len()].max(1);
            self.accepted_calls += 1;
            a.min(buf.len())
        };
        if n == buf.len() {
            self.log.borrow_mut().push(json!(["w", buf]));
        } else {
            self.log.borrow_mut().push(json!(["ws", buf, n]));
        }
        self.out.extend_from_slice(&buf[..n]);
        Ok(n)
    }
    fn flush(&mut self) -> io::Result<()> {
        Ok(())
    }
}

pub struct Plan {
    pub exact: bool,
    pub stream: Vec<u8>,
    pub cap: usize, // 0 = default capacity (no override)
    pub script: Vec<usize>,
    pub rfail: Option<usize>,
    pub wfail: Option<usize>, // index among write+closure calls
    pub rkind: usize,         // index into KINDS for the read failure
    pub wkind: usize,         // ... for the write / closure failure
    pub accept: Vec<usize>,   // the writer's short-write schedule (empty = accepts everything)
}

fn plan_json(p: &Plan) -> Value {
    json!({"stream": p.stream, "cap": p.cap, "script": p.script,
           "rfail": p.rfail.map(|x| x as i64).unwrap_or(-1),
           "wfail": p.wfail.map(|x| x as i64).unwrap_or(-1),
           "rkind": p.rkind, "wkind": p.wkind, "accept": p.accept})
}

/// try_stream_replace_all_with: closure calls and writes share one counter
/// for the injected failure so that "the k-th emission fails".
pub fn run_replace(ac: &AhoCorasick, p: &Plan) -> Value {
    let work = std::env::var("ACVERIF_STREAM_WORK").is_ok();
    if work { aho_corasick::verif::reset_counters(u64::MAX); }
    let log: Log = Rc::new(RefCell::new(vec![]));
    aho_corasick::verif::set_buffer_capacity(if p.cap == 0 { None } else { Some(p.cap) });
    let rdr = ScriptedReader {
        data: p.stream.clone(),
        pos: 0,
        script: p.script.clone(),
        exact: p.exact,
        calls: 0,
        fail_at: p.rfail,
        fail_kind: p.rkind,
        log: log.clone(),
    };
    let emitted = Rc::new(RefCell::new(0usize));
    let em2 = emitted.clone();
    // the writer's own failure index is derived from the shared counter
    struct W {
        inner: RecWriter,
        emitted: Rc<RefCell<usize>>,
        wfail: Option<usize>,
    }
    impl io::Write for W {
        fn write(&mut self, buf: &[u8]) -> io::Result<usize> {
            let k = *self.emitted.borrow();
            *self.emitted.borrow_mut() += 1;
            self.inner.fail_at = if self.wfail == Some(k) { Some(self.inner.calls) } else { None };
            self.inner.write(buf)
        }
        fn flush(&mut self) -> io::Result<()> {
            Ok(())
        }
    }
    let mut w = W {
        inner: RecWriter { calls: 0, fail_at: None, fail_kind: p.wkind, accept: p.accept.clone(), accepted_calls: 0, log: log.clone(), out: vec![] },
        emitted: emitted.clone(),
        wfail: p.wfail,
    };
    let l2 = log.clone();
    let wfail = p.wfail;
    let wkind = p.wkind;
    let r = guarded(|| {
        ac.try_stream_replace_all_with(rdr, &mut w, |m, bytes, _w| {
            let k = *em2.borrow();
            *em2.borrow_mut() += 1;
            if wfail == Some(k) {
                l2.borrow_mut().push(json!(["mfail", m.pattern().as_usize(), m.start(), m.end(), bytes]));
                return Err(io::Error::new(KINDS[wkind % KINDS.len()], "injected closure failure"));
            }
            l2.borrow_mut().push(json!(["m", m.pattern().as_usize(), m.start(), m.end(), bytes]));
            Ok(())
        })
    });
    aho_corasick::verif::set_buffer_capacity(None);
    let end = match r {
        Ok(Ok(())) => "ok",
        Ok(Err(_)) => "err",
        Err(_) => "panic",
    };
    let ops = log.borrow().clone();
    let mut v = plan_json(p);
    v["ev"] = json!("stream");
    v["mode"] = json!("replace");
    v["ops"] = json!(ops);
    v["end"] = json!(end);
    if work { v["trans"] = json!(aho_corasick::verif::counters().0); }
    v
}

/// try_stream_replace_all with a replacement table: only the final output
/// is recorded (validated against the in-memory replacement oracle).
pub fn run_replace_table(ac: &AhoCorasick, p: &Plan, rep: &[Vec<u8>]) -> Value {
    let log: Log = Rc::new(RefCell::new(vec![]));
    aho_corasick::verif::set_buffer_capacity(if p.cap == 0 { None } else { Some(p.cap) });
    let rdr = ScriptedReader {
        data: p.stream.clone(),
        pos: 0,
        script: p.script.clone(),
        exact: p.exact,
        calls: 0,
        fail_at: p.rfail,
        fail_kind: p.rkind,
        log: log.clone(),
    };
    let mut out: Vec<u8> = vec![];
    let r = guarded(|| ac.try_stream_replace_all(rdr, &mut out, rep));
    aho_corasick::verif::set_buffer_capacity(None);
    let end = match r {
        Ok(Ok(())) => "ok",
        Ok(Err(_)) => "err",
        Err(_) => "panic",
    };
    let mut v = plan_json(p);
    v["ev"] = json!("stream_table");
    v["R"] = json!(rep);
    v["res"] = json!(out);
    v["end"] = json!(end);
    v
}

/// try_stream_replace_all with a replacement table, every write recorded
/// (non-match chunks AND replacements are plain writes here); the k-th write
/// may fail
pub fn run_replace_table_ops(ac: &AhoCorasick, p: &Plan, rep: &[Vec<u8>]) -> Value {
    let log: Log = Rc::new(RefCell::new(vec![]));
    aho_corasick::verif::set_buffer_capacity(if p.cap == 0 { None } else { Some(p.cap) });
    let rdr = ScriptedReader {
        data: p.stream.clone(),
        pos: 0,
        script: p.script.clone(),
        exact: p.exact,
        calls: 0,
        fail_at: p.rfail,
        fail_kind: p.rkind,
        log: log.clone(),
    };
    let mut w = RecWriter { calls: 0, fail_at: p.wfail, fail_kind: p.wkind, accept: p.accept.clone(), accepted_calls: 0, log: log.clone(), out: vec![] };
    let r = guarded(|| ac.try_stream_replace_all(rdr, &mut w, rep));
    aho_corasick::verif::set_buffer_capacity(None);
    let end = match r {
        Ok(Ok(())) => "ok",
        Ok(Err(_)) => "err",
        Err(_) => "panic",
    };
    let ops = log.borrow().clone();
    let mut v = plan_json(p);
    v["ev"] = json!("stream");
    v["mode"] = json!("table");
    v["R"] = json!(rep);
    v["ops"] = json!(ops);
    v["end"] = json!(end);
    v
}

/// StreamFindIter: reads and yielded items in order
pub fn run_find(ac: &AhoCorasick, p: &Plan, repoll: bool) -> Value {
    let work = std::env::var("ACVERIF_STREAM_WORK").is_ok();
    if work { aho_corasick::verif::reset_counters(u64::MAX); }
    let log: Log = Rc::new(RefCell::new(vec![]));
    aho_corasick::verif::set_buffer_capacity(if p.cap == 0 { None } else { Some(p.cap) });
    let rdr = ScriptedReader {
        data: p.stream.clone(),
        pos: 0,
        script: p.script.clone(),
        exact: p.exact,
        calls: 0,
        fail_at: p.rfail,
        fail_kind: p.rkind,
        log: log.clone(),
    };
    let l2 = log.clone();
    let r = guarded(|| {
        let it = ac.try_stream_find_iter(rdr)?;
        for item in it {
            match item {
                Ok(m) => l2.borrow_mut().push(json!(["y", m.pattern().as_usize(), m.start(), m.end()])),
                Err(_) => {
                    l2.borrow_mut().push(json!(["yerr"]));
                    if !repoll {
                        return Ok("err");
                    }
                    // nothing stops a caller from polling again after an error: the
                    // failure was transient, the iterator must simply carry on
                }
            }
        }
        Ok::<&'static str, aho_corasick::MatchError>("ok")
    });
    aho_corasick::verif::set_buffer_capacity(None);
    let end = match r {
        Ok(Ok(e)) => e,
        Ok(Err(_)) => "rejected",
        Err(_) => "panic",
    };
    let ops = log.borrow().clone();
    let mut v = plan_json(p);
    v["ev"] = json!("stream");
    v["mode"] = json!("find");
    v["ops"] = json!(ops);
    v["end"] = json!(end);
    if work { v["trans"] = json!(aho_corasick::verif::counters().0); }
    v
}

/// all scripts (sequences of requested read sizes) of a given length
fn all_scripts(sizes: &[usize], len: usize) -> Vec<Vec<usize>> {
    let mut out: Vec<Vec<usize>> = vec![vec![]];
    for _ in 0..len {
        let mut next = vec![];
        for s in &out {
            for &z in sizes {
                let mut t = s.clone();
                t.push(z);
                next.push(t);
            }
        }
        out = next;
    }
    out
}

pub struct StreamStats {
    pub contexts: usize,
    pub events: usize,
}

fn ctx_line(out: &mut Out, shard: usize, c: &Ctx, min: usize) -> usize {
    out.put(shard, &json!({"ev":"ctx","ctx":c,"built":true,"err":"","min":min}))
}

/// families:
///  enum   exhaustive: non-empty pattern lists F(2,2) x streams <= 4 x caps min+1..3 x all
///         read scripts (cyclic, length 3, sizes 1..3) x every read fault x every write fault
///  rand   seeded: longer streams, random scripts, capacities from min+1 to default
pub fn run(out_prefix: &str, shards: usize, family: &str, seed: u64, scale: usize, faults: bool, maxstream: usize, sizes: &[usize], replay_file: &str) -> StreamStats {
    let mut out = Out::create(out_prefix, shards);
    let mut st = StreamStats { contexts: 0, events: 0 };
    let mut shard = 0usize;
    match family {
        "enum" => {
            let pats_all: Vec<Pats> = gen::family(b"ab", 2, 2)
                .into_iter()
                .filter(|p| !p.is_empty() && p.iter().all(|x| !x.is_empty()))
                .collect();
            let streams = gen::all_hays(b"ab", maxstream);
            let scripts = all_scripts(sizes, 2);
            // the writer's short-write schedule and the kind of the injected failure rotate
            // from run to run (a product with everything else would not add behaviour)
            let accepts: [&[usize]; 4] = [&[], &[1], &[2, 1], &[]];
            let mut nrun = 0usize;
            for (pi, pats) in pats_all.iter().enumerate() {
                let repr = ["top-nc", "top-c", "top-dfa", "top-auto"][pi % 4];
                let mut c = Ctx::new(pats, "std", repr);
                c.sk = "unanchored";
                let ac = build_top(&c).expect("build");
                let min = ac.max_pattern_len().max(1);
                let cl = ctx_line(&mut out, shard, &c, min);
                st.contexts += 1;
                for stream in &streams {
                    for x in 1..=3usize {
                        for script in &scripts {
                            nrun += 1;
                            let base = Plan { exact: false, stream: stream.clone(), cap: min + x, script: script.clone(), rfail: None, wfail: None,
                                rkind: 0, wkind: 0, accept: accepts[nrun % 4].to_vec() };
                            let mut v = run_replace(&ac, &base);
                            let nreads = v["ops"].as_array().unwrap().iter().filter(|o| o[0] == "r").count();
                            let nemit = v["ops"].as_array().unwrap().iter().filter(|o| o[0] == "w" || o[0] == "ws" || o[0] == "m").count();
                            v["c"] = json!(cl);
                            out.put(shard, &v);
                            st.events += 1;
                            let mut f = run_find(&ac, &base, true);
                            f["c"] = json!(cl);
                            out.put(shard, &f);
                            st.events += 1;
                            // the table variant (plain writes for chunks and replacements)
                            let rep: Vec<Vec<u8>> = (0..pats.len()).map(|k| [&b"<>"[..], &b""[..], &b"Z"[..]][(k + stream.len()) % 3].to_vec()).collect();
                            let mut tb = run_replace_table_ops(&ac, &base, &rep);
                            let nwrites = tb["ops"].as_array().unwrap().iter().filter(|o| o[0] == "w" || o[0] == "ws").count();
                            tb["c"] = json!(cl);
                            out.put(shard, &tb);
                            st.events += 1;
                            if faults {
                                for k in 0..nwrites {
                                    let p = Plan { wfail: Some(k), wkind: (nrun + k) % KINDS.len(), ..clone_plan(&base) };
                                    let mut v = run_replace_table_ops(&ac, &p, &rep);
                                    v["c"] = json!(cl);
                                    out.put(shard, &v);
                                    st.events += 1;
                                }
                            }
                            if faults {
                                for k in 0..nreads {
                                    let p = Plan { rfail: Some(k), rkind: (nrun + k) % KINDS.len(), ..clone_plan(&base) };
                                    let mut v = run_replace(&ac, &p);
                                    v["c"] = json!(cl);
                                    out.put(shard, &v);
                                    let mut f = run_find(&ac, &p, true);
                                    f["c"] = json!(cl);
                                    out.put(shard, &f);
                                    st.events += 2;
                                }
                                for k in 0..nemit {
                                    let p = Plan { wfail: Some(k), wkind: (nrun + k + 2) % KINDS.len(), ..clone_plan(&base) };
                                    let mut v = run_replace(&ac, &p);
                                    v["c"] = json!(cl);
                                    out.put(shard, &v);
                                    st.events += 1;
                                }
                            }
                        }
                    }
                }
                shard += 1;
            }
        }
        "rand" => {
            let mut rg = gen::rng(seed, 0x57_0001);
            // streams longer than the DEFAULT buffer (64 KiB): matches placed around the
            // capacity boundary, big reads / odd-sized reads; only the final output is
            // recorded (validated against the in-memory replacement oracle)
            for bi in 0..(2 * scale.min(2)) {
                let pats: Pats = vec![b"needle".to_vec(), b"ne".to_vec(), b"dle!".to_vec(), b"xyzzyxyzzy".to_vec()];
                let mut c = Ctx::new(&pats, "std", ["top-auto", "top-nc"][bi % 2]);
                c.sk = "unanchored";
                let ac = build_top(&c).expect("build");
                let cl = ctx_line(&mut out, shard, &c, ac.max_pattern_len());
                st.contexts += 1;
                let cap = 64 * 1024;
                let n = cap + 3000 + rg.gen_range(0..500);
                let mut stream = vec![b'.'; n];
                for &pos in &[cap - 12, cap - 6, cap - 3, cap - 1, cap, cap + 1, cap + 7, 2 * cap - 20 - 2950, 100, n - 6] {
                    let p = &pats[rg.gen_range(0..pats.len())];
                    if pos + p.len() <= n {
                        stream[pos..pos + p.len()].copy_from_slice(p);
                    }
                }
                let script = if bi % 2 == 0 { vec![] } else { vec![40_000, 7, 30_000, 1] };
                let base = Plan { exact: false, stream, cap: 0, script, rfail: None, wfail: None, rkind: 0, wkind: 0, accept: vec![] };
                let rep: Vec<Vec<u8>> = vec![b"<N>".to_vec(), b"<n>".to_vec(), b"".to_vec(), b"<X>".to_vec()];
                // too long for the TLA+ replacement oracle: C08 is stated relative to the
                // in-memory replace-all, so both outputs are recorded and TLC compares them
                // (the in-memory routine itself is validated against the oracle in C12)
                let t = run_replace_table(&ac, &base, &rep);
                let mem = guarded(|| ac.replace_all_bytes(&base.stream, &rep)).unwrap_or_default();
                out.put(shard, &json!({"ev":"stream_mem","c":cl,"len":base.stream.len(),"script":base.script,
                    "res":t["res"],"mem":mem,"end":t["end"]}));
                st.events += 1;
                shard += 1;
            }
            // long patterns around the thresholds of the capacity rule (8 * longest pattern vs the
            // 64 KiB default; powers of two): several rolls of the DEFAULT buffer, the long pattern
            // straddling each of them; the stream's matches are compared with the in-memory ones
            let long_lens: &[usize] = if std::env::var("ACVERIF_STREAM_LONG").is_ok() { &[8192, 8193, 16384, 16385, 32768] } else { &[] };
            for (bi, &plen) in long_lens.iter().enumerate() {
                let long: Vec<u8> = (0..plen).map(|j| b"abcdefg"[j % 7]).collect();
                let pats: Pats = vec![long.clone(), b"zz".to_vec()];
                let mut c = Ctx::new(&pats, "std", ["top-nc", "top-c"][bi % 2]);
                c.sk = "unanchored";
                let ac = build_top(&c).expect("build");
                let cl = ctx_line(&mut out, shard, &c, ac.max_pattern_len());
                st.contexts += 1;
                let cap = std::cmp::max(8 * plen, 64 * 1024);
                let n = 3 * cap + 1000;
                let mut stream = vec![b'.'; n];
                for k in 1..=2usize {
                    let pos = k * cap - plen / 2 - k;
                    stream[pos..pos + plen].copy_from_slice(&long);
                }
                for pos in (100..n - 2).step_by(7919) {
                    if stream[pos] == b'.' && stream[pos + 1] == b'.' { stream[pos] = b'z'; stream[pos + 1] = b'z'; }
                }
                let script: Vec<usize> = if bi % 2 == 0 { vec![] } else { vec![50_000, 3, 20_000] };
                let rdr = ScriptedReader { data: stream.clone(), pos: 0, script: script.clone(), exact: false, calls: 0,
                    fail_at: None, fail_kind: 0, log: Rc::new(RefCell::new(vec![])) };
                aho_corasick::verif::set_buffer_capacity(None);
                let g = guarded(|| {
                    let mut v: Vec<usize> = vec![];
                    for item in ac.stream_find_iter(rdr) {
                        match item { Ok(m) => v.extend([m.pattern().as_usize(), m.start(), m.end()]), Err(_) => { v.push(usize::MAX >> 40); break; } }
                    }
                    v
                });
                let mem: Vec<usize> = ac.find_iter(&stream).flat_map(|m| [m.pattern().as_usize(), m.start(), m.end()]).collect();
                let (end, res) = match g { Ok(v) => ("ok", v), Err(_) => ("panic", vec![]) };
                out.put(shard, &json!({"ev":"stream_mem","c":cl,"len":n,"script":script,"res":res,"mem":mem,"end":end,"longest":plen}));
                st.events += 1;
                shard += 1;
            }
            for i in 0..(40 * scale) {
                let pool = gen::POOLS[rg.gen_range(0..gen::POOLS.len())];
                let pats = gen::random_pats_over(&mut rg, pool, 6, 6, false);
                let repr = ["top-nc", "top-c", "top-dfa", "top-auto"][i % 4];
                let mut c = Ctx::new(&pats, "std", repr);
                c.sk = "unanchored";
                c.ci = rg.gen_range(0..3) == 0;
                c.pre = rg.gen_bool(0.5);
                let ac = build_top(&c).expect("build");
                let min = ac.max_pattern_len().max(1);
                let cl = ctx_line(&mut out, shard, &c, min);
                st.contexts += 1;
                for _ in 0..10 {
                    let stream = gen::random_hay(&mut rg, &pats, c.ci, 60);
                    let cap = match rg.gen_range(0..6) {
                        0 => 0,
                        1 => min + 1,
                        2 => min + 2,
                        3 => min * 2 + 1,
                        4 => min * 8,
                        _ => min + rg.gen_range(1..=8),
                    };
                    let slen = rg.gen_range(1..=4);
                    let maxsz = if cap == 0 { 70 } else { cap + 2 };
                    let script: Vec<usize> = (0..slen).map(|_| rg.gen_range(1..=maxsz)).collect();
                    let accept: Vec<usize> = match rg.gen_range(0..3) {
                        0 => vec![],
                        1 => vec![rg.gen_range(1..=3)],
                        _ => (0..rg.gen_range(1..=3)).map(|_| rg.gen_range(1..=16)).collect(),
                    };
                    let base = Plan { exact: false, stream, cap, script, rfail: None, wfail: None, rkind: 0, wkind: 0, accept };
                    let mut v = run_replace(&ac, &base);
                    let nreads = v["ops"].as_array().unwrap().iter().filter(|o| o[0] == "r").count();
                    let nemit = v["ops"].as_array().unwrap().iter().filter(|o| o[0] == "w" || o[0] == "ws" || o[0] == "m").count();
                    v["c"] = json!(cl);
                    out.put(shard, &v);
                    let mut f = run_find(&ac, &base, true);
                    f["c"] = json!(cl);
                    out.put(shard, &f);
                    let rep: Vec<Vec<u8>> = (0..pats.len())
                        .map(|k| { let n = rg.gen_range(0..4); (0..n).map(|_| b'A' + (k % 26) as u8).collect() })
                        .collect();
                    let mut t = run_replace_table(&ac, &base, &rep);
                    t["c"] = json!(cl);
                    out.put(shard, &t);
                    st.events += 3;
                    if faults {
                        if nreads > 0 {
                            let p = Plan { rfail: Some(rg.gen_range(0..nreads)), rkind: rg.gen_range(0..KINDS.len()), ..clone_plan(&base) };
                            let mut v = run_replace(&ac, &p);
                            v["c"] = json!(cl);
                            out.put(shard, &v);
                            let mut f = run_find(&ac, &p, true);
                            f["c"] = json!(cl);
                            out.put(shard, &f);
                            st.events += 2;
                        }
                        if nemit > 0 {
                            let p = Plan { wfail: Some(rg.gen_range(0..nemit)), wkind: rg.gen_range(0..KINDS.len()), ..clone_plan(&base) };
                            let mut v = run_replace(&ac, &p);
                            v["c"] = json!(cl);
                            out.put(shard, &v);
                            st.events += 1;
                            let p2 = Plan { wfail: Some(rg.gen_range(0..nemit)), wkind: rg.gen_range(0..KINDS.len()), ..clone_plan(&base) };
                            let mut v2 = run_replace_table_ops(&ac, &p2, &rep);
                            v2["c"] = json!(cl);
                            out.put(shard, &v2);
                            st.events += 1;
                        }
                    }
                }
                shard += 1;
            }
        }
        // B4: behaviours generated by TLC from spec/GenStream.tla (one JSON object per line:
        // pats, stream, cap, reads, rfail, wfail, end, matches, out), sorted by pats
        "replay" => {
            let text = std::fs::read_to_string(replay_file).expect("replay file");
            let mut last_pats: Option<Pats> = None;
            let mut cl = 0usize;
            let mut acs: Option<AhoCorasick> = None;
            for (li, line) in text.lines().enumerate() {
                let v: Value = serde_json::from_str(line).expect("replay line");
                let pats: Pats = serde_json::from_value(v["pats"].clone()).unwrap();
                if last_pats.as_ref() != Some(&pats) {
                    shard += 1;
                    let repr = ["top-nc", "top-c", "top-dfa", "top-auto"][li % 4];
                    let mut c = Ctx::new(&pats, "std", repr);
                    c.sk = "unanchored";
                    let ac = build_top(&c).expect("build");
                    let min = ac.max_pattern_len().max(1);
                    cl = ctx_line(&mut out, shard, &c, min);
                    st.contexts += 1;
                    acs = Some(ac);
                    last_pats = Some(pats.clone());
                }
                let ac = acs.as_ref().unwrap();
                let rf = v["rfail"].as_i64().unwrap();
                let wf = v["wfail"].as_i64().unwrap();
                let p = Plan {
                    exact: true,
                    stream: serde_json::from_value(v["stream"].clone()).unwrap(),
                    cap: v["cap"].as_u64().unwrap() as usize,
                    script: serde_json::from_value(v["reads"].clone()).unwrap(),
                    rfail: if rf < 0 { None } else { Some(rf as usize) },
                    wfail: if wf < 0 { None } else { Some(wf as usize) },
                    rkind: li % KINDS.len(),
                    wkind: 0, // the generated behaviours end at the failure (no write_all retry)
                    accept: vec![],
                };
                let mut r = run_replace(ac, &p);
                r["c"] = json!(cl);
                r["expect"] = json!({"end": v["end"], "matches": v["matches"], "out": v["out"]});
                out.put(shard, &r);
                st.events += 1;
                if p.wfail.is_none() {
                    let mut f = run_find(ac, &p, false);
                    f["c"] = json!(cl);
                    f["expect"] = json!({"end": v["end"], "matches": v["matches"], "out": v["out"]});
                    out.put(shard, &f);
                    st.events += 1;
                }
            }
        }
        other => panic!("unknown stream family {}", other),
    }
    out.finish();
    st
}

fn clone_plan(p: &Plan) -> Plan {
    Plan { exact: p.exact, stream: p.stream.clone(), cap: p.cap, script: p.script.clone(), rfail: p.rfail, wfail: p.wfail,
           rkind: p.rkind, wkind: p.wkind, accept: p.accept.clone() }
}
