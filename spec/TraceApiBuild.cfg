SPECIFICATION Spec
INVARIANT Valid
CHECK_DEADLOCK FALSE
