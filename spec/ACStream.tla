------------------------------ MODULE ACStream ------------------------------
(***************************************************************************)
(* Stream search: util/buffer.rs (Buffer::new/fill/roll) and               *)
(* automaton.rs StreamChunkIter::next with its five emission sites, the    *)
(* StreamFindIter / try_stream_replace_all_with drivers on top.            *)
(*                                                                         *)
(* Environment: a reader that, asked to fill `free` bytes, returns any     *)
(* n in 1..min(free, remaining), 0 at end of stream, or fails (at most     *)
(* MaxFaults times); a writer/closure that may fail at any emission.       *)
(*                                                                         *)
(* System actions (one per block of the `loop` in StreamChunkIter::next):  *)
(*   MatchChunk   sid is a match state: first the pending non-match chunk, *)
(*                then (next call) the match chunk; sid := start           *)
(*   PreRoll      buffer exhausted: report everything older than the last  *)
(*                `min` bytes                                              *)
(*   RollFill     roll the last `min` bytes to the front, start filling    *)
(*   Read         one call of Read::read inside Buffer::fill               *)
(*   Scan         walk the automaton to the next match state or to the end *)
(*                of the buffered bytes                                    *)
(*   Eof          Buffer::fill saw end of stream with nothing new: report  *)
(*                the remaining bytes, then (next call) finish             *)
(* `min` = max(1, longest pattern); `cap` ranges over Caps (the hook makes *)
(* capacities close to min reachable in the real code).                    *)
(***************************************************************************)
EXTENDS ACAutomaton, TLC

CONSTANTS Sigma, MaxPats, MaxPatLen, MaxStream, CIs,
          CapExtra,      \* capacities explored: min + x for x in CapExtra
          MaxFaults      \* 0 or 1 injected I/O failures per run

VARIABLES cfg,      \* [pats, ci, stream, cap, min]
          pc,       \* "new" | "top" | "fill" | "eof" | "done" | "failed"
          buf,      \* the valid part of the roll buffer: buf[1..end]
          rpos,     \* bytes delivered by the reader so far
          readany,  \* Buffer::fill's local
          sid, apos, bpos, rep,      \* StreamChunkIter fields
          outpos,   \* history: stream bytes emitted so far (all chunks)
          nm,       \* history: matches emitted so far
          last,     \* history: the most recent emission
          eofseen,  \* history: some read returned 0
          faults,   \* history: failures injected so far
          orc,      \* the in-memory iterator's match sequence for cfg (computed once per run)
          ftype     \* kind of the failure that made pc = "failed": "none" | "read" | "write"
vars == <<cfg, pc, buf, rpos, readany, sid, apos, bpos, rep, outpos, nm, last, eofseen, faults, orc, ftype>>

SeqsUpTo(S, n) == UNION {[1..k -> S] : k \in 0..n}
NonEmptySeqs(S, n) == UNION {[1..k -> S] : k \in 1..n}

P == IF cfg.ci THEN FoldAll(cfg.pats) ELSE cfg.pats
K == "std"
S == cfg.stream
MaxLenOf(pats) == MaxOf({Len(pats[k]) : k \in 1..Len(pats)})
NoEmit == [kind |-> "none", bytes |-> <<>>, mat |-> None]

Init ==
    /\ \E pats \in NonEmptySeqs(NonEmptySeqs(Sigma, MaxPatLen), MaxPats), ci \in CIs :
         cfg = [pats |-> pats, ci |-> ci, stream |-> <<>>, cap |-> 0, min |-> MaxLenOf(pats)]
    /\ pc = "new" /\ buf = <<>> /\ rpos = 0 /\ readany = FALSE
    /\ sid = Root /\ apos = 0 /\ bpos = 0 /\ rep = 0
    /\ outpos = 0 /\ nm = 0 /\ last = NoEmit /\ eofseen = FALSE /\ faults = 0
    /\ orc = <<>> /\ ftype = "none"

New ==
    /\ pc = "new"
    /\ \E stream \in SeqsUpTo(Sigma, MaxStream), x \in CapExtra :
         /\ cfg' = [cfg EXCEPT !.stream = stream, !.cap = cfg.min + x]
         /\ orc' = IterOracle(cfg.pats, "std", stream, 0, Len(stream), cfg.ci, FALSE)
    /\ pc' = "top"
    /\ UNCHANGED <<buf, rpos, readany, sid, apos, bpos, rep, outpos, nm, last, eofseen, faults, ftype>>

Emit(kind, a, b, m) ==       \* the chunk buf[a..b) is handed to the caller
    /\ last' = [kind |-> kind, bytes |-> SubSeq(buf, a + 1, b), mat |-> m]
    /\ outpos' = outpos + (b - a)
    /\ rep' = rep + (b - a)
    /\ nm' = IF kind = "m" THEN nm + 1 ELSE nm

(* the caller's writer / closure may fail on any emission (C18) *)
MaybeWriteFault == IF faults < MaxFaults THEN {FALSE, TRUE} ELSE {FALSE}

MatchChunk ==
    /\ pc = "top" /\ IsMatchState(P, K, sid)
    /\ LET m == GetMatch(P, K, sid, 1, apos)
           mlen == m[3] - m[2]
           bms == bpos - mlen IN
       IF bms > rep
       THEN /\ Emit("n", rep, bms, None) /\ UNCHANGED sid
       ELSE /\ sid' = Root /\ Emit("m", bpos - mlen, bpos, m)
    /\ \E wf \in MaybeWriteFault :
         IF wf THEN pc' = "failed" /\ faults' = faults + 1 /\ ftype' = "write"
         ELSE UNCHANGED <<pc, faults, ftype>>
    /\ UNCHANGED <<orc, cfg, buf, rpos, readany, apos, bpos, eofseen>>

Exhausted == pc = "top" /\ ~IsMatchState(P, K, sid) /\ bpos >= Len(buf)
SatSub(a, b) == IF a >= b THEN a - b ELSE 0

PreRoll ==
    /\ Exhausted
    /\ rep < SatSub(Len(buf), cfg.min)
    /\ Emit("n", rep, SatSub(Len(buf), cfg.min), None)
    /\ \E wf \in MaybeWriteFault :
         IF wf THEN pc' = "failed" /\ faults' = faults + 1 /\ ftype' = "write"
         ELSE UNCHANGED <<pc, faults, ftype>>
    /\ UNCHANGED <<orc, cfg, buf, rpos, readany, sid, apos, bpos, eofseen>>

RollFill ==
    /\ Exhausted
    /\ ~(rep < SatSub(Len(buf), cfg.min))
    /\ IF Len(buf) >= cfg.min
       THEN /\ bpos' = cfg.min
            /\ rep' = rep - (Len(buf) - cfg.min)
            /\ buf' = SubSeq(buf, Len(buf) - cfg.min + 1, Len(buf))      \* Buffer::roll
       ELSE UNCHANGED <<bpos, rep, buf>>
    /\ pc' = "fill" /\ readany' = FALSE
    /\ UNCHANGED <<orc, cfg, rpos, sid, apos, outpos, nm, last, eofseen, faults, ftype>>

Remaining == Len(S) - rpos
Free == cfg.cap - Len(buf)
MinOf2(a, b) == IF a <= b THEN a ELSE b

Read ==
    /\ pc = "fill"
    /\ \/ \* the reader fails (C18): Buffer::fill returns the error, next() yields it
          /\ faults < MaxFaults /\ faults' = faults + 1 /\ pc' = "failed" /\ ftype' = "read"
          /\ UNCHANGED <<buf, rpos, readany, outpos, nm, last, eofseen, rep>>
       \/ \* the reader delivers n >= 1 bytes
          /\ \E n \in 1..MinOf2(Free, Remaining) :
               /\ buf' = buf \o SubSeq(S, rpos + 1, rpos + n)
               /\ rpos' = rpos + n
               /\ readany' = TRUE
               /\ pc' = IF Len(buf) + n >= cfg.min THEN "top" ELSE "fill"
          /\ UNCHANGED <<outpos, nm, last, eofseen, faults, rep, ftype>>
       \/ \* read returns 0: end of stream (or no free space: the code cannot tell)
          /\ (Remaining = 0 \/ Free = 0)
          /\ eofseen' = TRUE
          /\ pc' = IF readany THEN "top" ELSE "eof"
          /\ UNCHANGED <<buf, rpos, readany, faults, outpos, nm, last, rep, ftype>>
    /\ UNCHANGED <<orc, cfg, sid, apos, bpos>>

(* Buffer::fill returned Ok(false): get_eof_non_match_chunk, then None *)
Eof ==
    /\ pc = "eof"
    /\ IF rep < Len(buf)
       THEN /\ Emit("n", rep, Len(buf), None)
            /\ \E wf \in MaybeWriteFault :
                 IF wf THEN pc' = "failed" /\ faults' = faults + 1 /\ ftype' = "write"
                 ELSE pc' = "top" /\ UNCHANGED <<faults, ftype>>
       ELSE pc' = "done" /\ UNCHANGED <<outpos, nm, last, rep, faults, ftype>>
    /\ UNCHANGED <<orc, cfg, buf, rpos, readany, sid, apos, bpos, eofseen>>

(* the `for &byte in buf[buffer_pos..]` loop: stop after entering a match state *)
RECURSIVE ScanFrom(_, _)
ScanFrom(s, i) ==   \* returns <<state, bytes consumed>> starting at buffer offset i
    IF i >= Len(buf) THEN <<s, 0>>
    ELSE LET n == NextU(P, K, s, Feed(buf[i + 1], cfg.ci)) IN
         IF IsMatchState(P, K, n) THEN <<n, 1>>
         ELSE LET r == ScanFrom(n, i + 1) IN <<r[1], r[2] + 1>>

Scan ==
    /\ pc = "top" /\ ~IsMatchState(P, K, sid) /\ bpos < Len(buf)
    /\ LET r == ScanFrom(sid, bpos) IN
       /\ sid' = r[1] /\ apos' = apos + r[2] /\ bpos' = bpos + r[2]
    /\ UNCHANGED <<orc, cfg, pc, buf, rpos, readany, rep, outpos, nm, last, eofseen, faults, ftype>>

(* StreamFindIter yielded Some(Err(e)) for a failed read; nothing stops the caller  *)
(* from calling next() again.  The failed fill changed nothing but the bytes it had *)
(* already buffered, so the loop is simply re-entered (a transient failure).        *)
Repoll ==
    /\ pc = "failed" /\ ftype = "read"
    /\ pc' = "top" /\ ftype' = "none"
    /\ UNCHANGED <<orc, cfg, buf, rpos, readany, sid, apos, bpos, rep, outpos, nm, last, eofseen, faults>>

Next == New \/ MatchChunk \/ PreRoll \/ RollFill \/ Read \/ Eof \/ Scan \/ Repoll
Spec == Init /\ [][Next]_vars

(* ------------------------------ properties ------------------------------ *)
Oracle == orc

(* C08: the concatenation of all chunks reproduces the stream byte for byte *)
ChunkConcat ==
    last.kind # "none" =>
        last.bytes = SubSeq(S, outpos - Len(last.bytes) + 1, outpos)

(* C07 / C18: matches are a prefix of the in-memory iterator's sequence,    *)
(* with absolute offsets, and the match chunk is exactly the matched bytes  *)
MatchPrefix ==
    /\ nm <= Len(Oracle)
    /\ last.kind = "m" => /\ last.mat = Oracle[nm]
                          /\ last.mat[3] = outpos
                          /\ Len(last.bytes) = last.mat[3] - last.mat[2]

(* C07 / C08: at the end everything has been produced *)
Complete ==
    pc = "done" => /\ outpos = Len(S) /\ nm = Len(Oracle) /\ rpos = Len(S)

(* no index underflow / overflow anywhere (C15, C18: nothing panics) *)
Indices ==
    /\ rep <= bpos
    /\ rep <= Len(buf) /\ bpos <= Len(buf) /\ Len(buf) <= cfg.cap
    /\ IsMatchState(P, K, sid) /\ pc = "top" =>
          LET m == GetMatch(P, K, sid, 1, apos) IN m[2] >= 0 /\ bpos >= m[3] - m[2]
    /\ apos = rpos - Len(buf) + bpos
    /\ outpos = rpos - Len(buf) + rep

(* a read is never attempted with a full buffer while data remains: the     *)
(* code would take the 0 it gets back for end of stream                     *)
NoFalseEof == pc = "fill" /\ Remaining > 0 => Free > 0

(* C18: the end of the stream is reported only when the reader reported it  *)
EofOnlyWhenReaderSaysSo == pc = "done" => eofseen /\ Remaining = 0

(* reachability witnesses (non-vacuity), see `bin/check selftest` *)
Reach_RollWithMatchAcross ==   \* a match chunk whose bytes were partly read before a roll
    last.kind = "m" /\ rpos > Len(buf) /\ last.mat[2] < rpos - Len(buf) + cfg.min
Reach_PreRollChunk == pc = "top" /\ last.kind = "n" /\ bpos >= Len(buf) /\ rep = Len(buf) - cfg.min /\ rep > 0
Reach_FailedAfterOutput == pc = "failed" /\ outpos > 0 /\ nm > 0

(* C18: whatever happens, what was produced so far is a correct prefix      *)
(* (ChunkConcat and MatchPrefix are invariants of every reachable state,    *)
(* including the failed ones)                                               *)
FailedIsPrefix == pc = "failed" => outpos <= Len(S) /\ nm <= Len(Oracle)

=============================================================================
