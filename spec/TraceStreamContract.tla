------------------------ MODULE TraceStreamContract ------------------------
(***************************************************************************)
(* The OBSERVABLE contract of stream search / stream replacement (C07,     *)
(* C08, C18), checked on every recorded run of the real code, with no      *)
(* reference to how the implementation buffers, rolls or chunks:           *)
(*                                                                         *)
(*  - what the writer ACCEPTED, in order, is the stream text outside the   *)
(*    matches of the in-memory non-overlapping iterator, each byte once;   *)
(*    every match is handed to the closure exactly once, in order, with    *)
(*    absolute offsets and exactly the matched bytes, after all text       *)
(*    before it was written (table variant: its replacement is written     *)
(*    instead);                                                            *)
(*  - StreamFindIter yields exactly the iterator's matches, in order;      *)
(*  - a run that ends without error produced everything, and only after    *)
(*    the reader reported end of stream; a failed read / write / closure   *)
(*    call is reported (error result, resp. one error item per failure)    *)
(*    and whatever was produced before is a prefix of the fault-free       *)
(*    production; nothing panics.                                          *)
(*                                                                         *)
(* TraceStream.tla replays the same runs through ACStream's actions; a run *)
(* this module accepts but ACStream cannot explain step by step is an      *)
(* implementation that no longer has ACStream's shape, not a violation.    *)
(* IOEnv.TRACE: the ndjson of `acverif stream` (see TraceStream.tla).      *)
(***************************************************************************)
EXTENDS ACBase, Json, IOUtils, TLC

Rec == ndJsonDeserialize(IOEnv.TRACE)
Stripes == 16

VARIABLES t, l,     \* run, next op
          opos,     \* stream bytes accounted for by the output so far
          nm,       \* matches produced so far
          rpend,    \* table variant: bytes of the current replacement not written yet
          eofseen,  \* some read returned 0
          nfail,    \* failures injected so far (reads, writes, closure calls)
          nyerr,    \* error items yielded so far
          orc,      \* the in-memory iterator's matches for this run
          live      \* FALSE on lines that are not runs
vars == <<t, l, opos, nm, rpend, eofseen, nfail, nyerr, orc, live>>

IsRun(tt) == tt <= Len(Rec) /\ Rec[tt].ev = "stream"
E == Rec[t]
Ops == IF IsRun(t) THEN E.ops ELSE <<>>
Mode == IF IsRun(t) THEN E.mode ELSE "none"
Ctx == Rec[E.c].ctx
S == E.stream

Reject(why) ==
    PrintT("REJECT " \o ToJson([line |-> t, call |-> l, ev |-> "stream", why |-> why]))

OrcOf(tt) ==
    IF IsRun(tt)
    THEN LET e == Rec[tt]  c == Rec[e.c].ctx IN
         IterOracle(c.pats, "std", e.stream, 0, Len(e.stream), c.ci, FALSE)
    ELSE <<>>

Load(tt) ==
    /\ t' = tt /\ l' = 1 /\ opos' = 0 /\ nm' = 0 /\ rpend' = <<>> /\ eofseen' = FALSE
    /\ nfail' = 0 /\ nyerr' = 0 /\ orc' = OrcOf(tt) /\ live' = IsRun(tt)

Init ==
    /\ t \in 1..(IF Len(Rec) < Stripes THEN Len(Rec) ELSE Stripes)
    /\ l = 1 /\ opos = 0 /\ nm = 0 /\ rpend = <<>> /\ eofseen = FALSE
    /\ nfail = 0 /\ nyerr = 0 /\ orc = OrcOf(t) /\ live = IsRun(t)

LoadNext ==
    /\ (t + Stripes > Len(Rec)) => PrintT("DONE " \o ToJson([stripe |-> t]))
    /\ Load(t + Stripes)

ToM3(o) == <<o[2] + 1, o[3], o[4]>>
IsPrefixOf(a, b) == Len(a) <= Len(b) /\ a = SubSeq(b, 1, Len(a))
Drop(a, n) == SubSeq(a, n + 1, Len(a))

(* the bytes a write call transferred *)
Accepted(o) == IF o[1] = "ws" THEN SubSeq(o[2], 1, o[3]) ELSE o[2]

(* table variant: a match whose replacement is empty needs no write at all *)
RECURSIVE SkipEmpty(_, _)
SkipEmpty(p, k) ==      \* <<opos, nm>> after passing such matches that start at p
    IF k < Len(orc) /\ orc[k + 1][2] = p /\ Mode = "table" /\ E.R[orc[k + 1][1]] = <<>>
    THEN SkipEmpty(orc[k + 1][3], k + 1) ELSE <<p, k>>

NextStart(k) == IF k < Len(orc) THEN orc[k + 1][2] ELSE Len(S)

(* `acc` continues the text outside matches *)
TextStep(p, k, acc) ==
    /\ p + Len(acc) <= NextStart(k)
    /\ acc = SubSeq(S, p + 1, p + Len(acc))

OpStep ==
    /\ live /\ l <= Len(Ops)
    /\ LET o == Ops[l] IN
       \/ /\ o[1] = "r" /\ o[3] <= o[2]
          /\ eofseen' = (eofseen \/ o[3] = 0)
          /\ UNCHANGED <<opos, nm, rpend, nfail, nyerr>>
       \/ /\ o[1] \in {"rfail", "wfail"} /\ nfail' = nfail + 1
          /\ UNCHANGED <<opos, nm, rpend, eofseen, nyerr>>
       \/ /\ o[1] = "wintr" /\ UNCHANGED <<opos, nm, rpend, eofseen, nfail, nyerr>>
       \/ /\ o[1] \in {"w", "ws"} /\ Mode = "replace"
          /\ TextStep(opos, nm, Accepted(o))
          /\ opos' = opos + Len(Accepted(o))
          /\ UNCHANGED <<nm, rpend, eofseen, nfail, nyerr>>
       \/ /\ o[1] \in {"w", "ws"} /\ Mode = "table" /\ rpend # <<>>
          /\ IsPrefixOf(Accepted(o), rpend) /\ rpend' = Drop(rpend, Len(Accepted(o)))
          /\ UNCHANGED <<opos, nm, eofseen, nfail, nyerr>>
       \/ /\ o[1] \in {"w", "ws"} /\ Mode = "table" /\ rpend = <<>>
          /\ LET pk == SkipEmpty(opos, nm)  p == pk[1]  k == pk[2]  acc == Accepted(o) IN
             IF k < Len(orc) /\ orc[k + 1][2] = p
             THEN \* the replacement of the match that starts here
                  /\ IsPrefixOf(acc, E.R[orc[k + 1][1]])
                  /\ rpend' = Drop(E.R[orc[k + 1][1]], Len(acc))
                  /\ opos' = orc[k + 1][3] /\ nm' = k + 1
             ELSE /\ TextStep(p, k, acc) /\ opos' = p + Len(acc) /\ nm' = k /\ rpend' = <<>>
          /\ UNCHANGED <<eofseen, nfail, nyerr>>
       \/ /\ o[1] \in {"m", "mfail"} /\ Mode = "replace"
          /\ nm < Len(orc) /\ ToM3(o) = orc[nm + 1]
          /\ opos = o[3]                                   \* everything before it was written
          /\ o[5] = SubSeq(S, o[3] + 1, o[4])              \* exactly the matched bytes
          /\ opos' = o[4] /\ nm' = nm + 1
          /\ nfail' = IF o[1] = "mfail" THEN nfail + 1 ELSE nfail
          /\ UNCHANGED <<rpend, eofseen, nyerr>>
       \/ /\ o[1] = "y" /\ Mode = "find"
          /\ nm < Len(orc) /\ ToM3(o) = orc[nm + 1] /\ nm' = nm + 1
          /\ UNCHANGED <<opos, rpend, eofseen, nfail, nyerr>>
       \/ /\ o[1] = "yerr" /\ Mode = "find" /\ nyerr < nfail /\ nyerr' = nyerr + 1
          /\ UNCHANGED <<opos, nm, rpend, eofseen, nfail>>
    /\ l' = l + 1 /\ UNCHANGED <<t, orc, live>>

EndOK ==
    LET pk == SkipEmpty(opos, nm) IN
    CASE E.end = "ok" ->
            /\ eofseen                                   \* end of stream only when the reader said so
            /\ IF Mode = "find" THEN nm = Len(orc) /\ nyerr = nfail
               ELSE nfail = 0 /\ rpend = <<>> /\ pk[1] = Len(S) /\ pk[2] = Len(orc)
      [] E.end = "err" ->
            /\ nfail >= 1                                \* an error needs a failure ...
            /\ Mode = "find" => nyerr = nfail            \* ... and every failure is an item
      [] OTHER -> FALSE                                  \* "panic" / "rejected"

(* C19 for streams (recorded only by the C19 check): every stream byte is fed to the *)
(* automaton at most once                                                            *)
WorkOK == "trans" \in DOMAIN E => E.trans <= Len(S)

Finish ==
    /\ live /\ l = Len(Ops) + 1
    /\ IF WorkOK THEN TRUE
       ELSE Reject("the stream search made " \o ToString(E.trans) \o " automaton transitions for a stream of "
                   \o ToString(Len(S)) \o " bytes")
    /\ IF EndOK THEN TRUE
       ELSE Reject("run ended with " \o E.end \o " after " \o ToString(nm) \o " of " \o ToString(Len(orc))
                   \o " matches and " \o ToString(opos) \o " of " \o ToString(Len(S))
                   \o " stream bytes; failures injected " \o ToString(nfail)
                   \o ", error items " \o ToString(nyerr) \o ", reader reported the end: " \o ToString(eofseen))
    /\ LoadNext

Stuck ==
    /\ live /\ l <= Len(Ops) /\ ~ENABLED OpStep
    /\ Reject("op " \o ToString(Ops[l]) \o " is not what the in-memory result prescribes after "
              \o ToString(nm) \o " matches and " \o ToString(opos) \o " stream bytes"
              \o " (next match " \o (IF nm < Len(orc) THEN ToString(orc[nm + 1]) ELSE "none")
              \o ", replacement bytes pending " \o ToString(rpend) \o ")")
    /\ LoadNext

(* lines that are not runs: whole-output records *)
TableOK(e) ==
    LET c == Rec[e.c].ctx IN
    /\ e.end = "ok"
    /\ e.res = ReplaceOracle(c.pats, "std", e.stream, c.ci, e.R, 0, FALSE)
Skip ==
    /\ ~live /\ t <= Len(Rec)
    /\ IF E.ev = "stream_table"
       THEN (IF TableOK(E) THEN TRUE
             ELSE Reject("stream replace_all output differs from in-memory replace_all"))
       ELSE IF E.ev = "stream_mem"     \* long streams: the two real outputs are compared (C08)
       THEN (IF E.end = "ok" /\ E.res = E.mem THEN TRUE
             ELSE Reject("stream replace_all output differs from the in-memory replace_all output"))
       ELSE TRUE
    /\ LoadNext

Next == OpStep \/ Finish \/ Stuck \/ Skip
Spec == Init /\ [][Next]_vars

(* what was produced so far is always a prefix of the fault-free production *)
PrefixInv == live => opos <= Len(S) /\ nm <= Len(orc)
=============================================================================
