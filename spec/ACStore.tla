------------------------------- MODULE ACStore -------------------------------
(***************************************************************************)
(* The transition STORAGE of nfa::noncontiguous (src/nfa/noncontiguous.rs) *)
(* and the byte classes it is indexed with (src/util/alphabet.rs):         *)
(*   NFA::add_transition          sorted insert into a state's link chain  *)
(*   NFA::init_full_state         one link per byte value                  *)
(*   NFA::follow_transition(_sparse)   the lookup used by the construction *)
(*                                and by next_state                        *)
(*   ByteClassSet::set_range / byte_classes                                *)
(*   Compiler::set_anchored_start_state   lock-step copy of the two chains *)
(*   Compiler::add_unanchored_start_state_loop                             *)
(*   Compiler::densify            a second, class-indexed copy of the      *)
(*                                transitions of states near the start     *)
(*   Compiler::close_start_state_loop_for_leftmost (writes BOTH copies)    *)
(* in the order Compiler::compile runs them.  A ghost variable `abs` holds *)
(* the transition function the steps are MEANT to produce; the claim is    *)
(* that the lookup the code performs (dense copy when there is one, chain  *)
(* otherwise) returns abs for every state and every byte, at every step.   *)
(* Byte values are 0..NB-1 (the code: 0..255); bytes 0 and 1 are a case    *)
(* pair.  States: 0 DEAD, 1 FAIL, 2 unanchored start, 3 anchored start,    *)
(* 4.. trie states.                                                        *)
(***************************************************************************)
EXTENDS Integers, Sequences, FiniteSets, TLC

CONSTANTS NB,          \* number of byte values
          MaxStates,   \* states available (>= 4)
          DenseDepths, \* values of Builder::dense_depth explored
          CIs          \* ascii_case_insensitive settings explored

DEAD == 0
FAIL == 1
SU == 2
SA == 3
Bytes == 0..(NB - 1)
Opp(b) == IF b = 0 THEN 1 ELSE IF b = 1 THEN 0 ELSE b

VARIABLES pc,      \* "trie" | "anch" | "loop" | "densify" | "close" | "done"
          n,       \* number of states allocated
          chain,   \* state -> sequence of [b, nx]   (the link chain, head first)
          dense,   \* state -> <<>> (no dense copy) or class-indexed sequence
          depth,   \* state -> depth in the trie
          bits,    \* ByteClassSet: the set of bytes after which a class ends
          cls,     \* byte -> class, fixed when the trie is complete
          ci, dd,
          di,      \* densify: next state to consider
          abs      \* ghost: state -> [byte -> state]
vars == <<pc, n, chain, dense, depth, bits, cls, ci, dd, di, abs>>

States == 0..(MaxStates - 1)

(* ------------------------------ the chain ------------------------------ *)
(* add_transition: new head / overwrite head / walk to the first link whose *)
(* byte is not smaller, insert before it or overwrite it                   *)
RECURSIVE FirstNotSmaller(_, _, _)
FirstNotSmaller(c, b, i) ==
    IF i > Len(c) THEN i ELSE IF c[i].b >= b THEN i ELSE FirstNotSmaller(c, b, i + 1)

InsertAt(c, i, x) == SubSeq(c, 1, i - 1) \o <<x>> \o SubSeq(c, i, Len(c))

AddChain(c, b, nx) ==
    IF c = <<>> \/ b < c[1].b THEN <<[b |-> b, nx |-> nx]>> \o c
    ELSE IF b = c[1].b THEN [c EXCEPT ![1].nx = nx]
    ELSE LET i == FirstNotSmaller(c, b, 2) IN
         IF i > Len(c) \/ b < c[i].b THEN InsertAt(c, i, [b |-> b, nx |-> nx])
         ELSE [c EXCEPT ![i].nx = nx]

(* follow_transition_sparse: stop at the first link whose byte is >= b *)
RECURSIVE FollowChain(_, _, _)
FollowChain(c, b, i) ==
    IF i > Len(c) THEN FAIL
    ELSE IF b <= c[i].b THEN (IF b = c[i].b THEN c[i].nx ELSE FAIL)
    ELSE FollowChain(c, b, i + 1)

FullChain(nx) == [x \in 1..NB |-> [b |-> x - 1, nx |-> nx]]    \* init_full_state

(* ---------------------------- byte classes ------------------------------ *)
(* set_range(b, b): a class ends after b - 1 and after b *)
Mark(B, b) == B \cup {b} \cup (IF b > 0 THEN {b - 1} ELSE {})
ClassesOf(B) == [b \in Bytes |-> Cardinality({x \in B : x < b})]
NumClasses == cls[NB - 1] + 1

(* follow_transition *)
Follow(s, b) ==
    IF dense[s] = <<>> THEN FollowChain(chain[s], b, 1) ELSE dense[s][cls[b] + 1]

(* ------------------------------- steps ---------------------------------- *)
Init ==
    /\ pc = "trie" /\ n = 4 /\ di = 0
    /\ ci \in CIs /\ dd \in DenseDepths
    \* init_unanchored_start_state (both start states) and add_dead_state_loop
    /\ chain = [s \in States |-> IF s = DEAD THEN FullChain(DEAD)
                                 ELSE IF s \in {SU, SA} THEN FullChain(FAIL) ELSE <<>>]
    /\ dense = [s \in States |-> <<>>]
    /\ depth = [s \in States |-> 0]
    /\ bits = {} /\ cls = [b \in Bytes |-> 0]
    /\ abs = [s \in States |-> [b \in Bytes |-> IF s = DEAD THEN DEAD ELSE FAIL]]

(* build_trie: one new edge (and its twin under case insensitivity) *)
AddEdge ==
    /\ pc = "trie" /\ n < MaxStates
    /\ \E s \in ({SU} \cup (4..(n - 1))), b \in Bytes :
         /\ FollowChain(chain[s], b, 1) = FAIL     \* the state does not exist yet
         /\ LET c1 == AddChain(chain[s], b, n)
                c2 == IF ci THEN AddChain(c1, Opp(b), n) ELSE c1 IN
            /\ chain' = [chain EXCEPT ![s] = c2]
            /\ abs' = [abs EXCEPT ![s] = [x \in Bytes |->
                          IF x = b \/ (ci /\ x = Opp(b)) THEN n ELSE @[x]]]
            /\ bits' = IF ci THEN Mark(Mark(bits, b), Opp(b)) ELSE Mark(bits, b)
            /\ depth' = [depth EXCEPT ![n] = depth[s] + 1]
    /\ n' = n + 1
    /\ UNCHANGED <<pc, dense, cls, ci, dd, di>>

EndTrie ==
    /\ pc = "trie" /\ pc' = "anch"
    /\ cls' = ClassesOf(bits)
    /\ UNCHANGED <<n, chain, dense, depth, bits, ci, dd, di, abs>>

(* set_anchored_start_state: walk both chains link by link *)
SetAnchored ==
    /\ pc = "anch" /\ pc' = "loop"
    /\ Len(chain[SU]) = Len(chain[SA])             \* otherwise: unreachable!()
    /\ chain' = [chain EXCEPT ![SA] = [i \in 1..Len(chain[SA]) |->
                                         [b |-> chain[SA][i].b, nx |-> chain[SU][i].nx]]]
    /\ abs' = [abs EXCEPT ![SA] = abs[SU]]
    /\ UNCHANGED <<n, dense, depth, bits, cls, ci, dd, di>>

(* add_unanchored_start_state_loop: chain only - runs before densify *)
StartLoop ==
    /\ pc = "loop" /\ pc' = "densify"
    /\ chain' = [chain EXCEPT ![SU] = [i \in 1..Len(chain[SU]) |->
                   IF chain[SU][i].nx = FAIL THEN [chain[SU][i] EXCEPT !.nx = SU] ELSE chain[SU][i]]]
    /\ abs' = [abs EXCEPT ![SU] = [b \in Bytes |-> IF @[b] = FAIL THEN SU ELSE @[b]]]
    /\ UNCHANGED <<n, dense, depth, bits, cls, ci, dd, di>>

(* densify: one state per step *)
RECURSIVE Spread(_, _, _)
Spread(d, c, i) ==
    IF i > Len(c) THEN d ELSE Spread([d EXCEPT ![cls[c[i].b] + 1] = c[i].nx], c, i + 1)

Densify ==
    /\ pc = "densify"
    /\ IF di >= n THEN pc' = "close" /\ UNCHANGED <<dense, di>>
       ELSE /\ di' = di + 1 /\ UNCHANGED pc
            /\ IF di \in {DEAD, FAIL} \/ depth[di] >= dd THEN UNCHANGED dense
               ELSE dense' = [dense EXCEPT ![di] =
                                 Spread([k \in 1..NumClasses |-> FAIL], chain[di], 1)]
    /\ UNCHANGED <<n, chain, depth, bits, cls, ci, dd, abs>>

(* close_start_state_loop_for_leftmost (taken or not: leftmost kind and a   *)
(* matching start state are outside this module)                           *)
CloseLoop ==
    /\ pc = "close" /\ pc' = "done"
    /\ \/ UNCHANGED <<chain, dense, abs>>
       \/ /\ chain' = [chain EXCEPT ![SU] = [i \in 1..Len(chain[SU]) |->
                   IF chain[SU][i].nx = SU THEN [chain[SU][i] EXCEPT !.nx = DEAD] ELSE chain[SU][i]]]
          /\ dense' = IF dense[SU] = <<>> THEN dense
                      ELSE [dense EXCEPT ![SU] = [k \in 1..NumClasses |->
                              IF \E i \in 1..Len(chain[SU]) : chain[SU][i].nx = SU /\ cls[chain[SU][i].b] + 1 = k
                              THEN DEAD ELSE @[k]]]
          /\ abs' = [abs EXCEPT ![SU] = [b \in Bytes |-> IF @[b] = SU THEN DEAD ELSE @[b]]]
    /\ UNCHANGED <<n, depth, bits, cls, ci, dd, di>>

Next == AddEdge \/ EndTrie \/ SetAnchored \/ StartLoop \/ Densify \/ CloseLoop
Spec == Init /\ [][Next]_vars

(* ------------------------------ properties ------------------------------ *)
(* the chain is strictly sorted (what follow_transition_sparse's early exit *)
(* and add_transition's walk rely on)                                      *)
ChainSorted ==
    \A s \in States : \A i \in 1..(Len(chain[s]) - 1) : chain[s][i].b < chain[s][i + 1].b

(* both start states always have a link for every byte value, in the same  *)
(* order: the lock-step walk never hits its unreachable!()                 *)
StartChainsAligned ==
    /\ Len(chain[SU]) = NB /\ Len(chain[SA]) = NB
    /\ \A i \in 1..NB : chain[SU][i].b = i - 1 /\ chain[SA][i].b = i - 1

(* the lookup the code performs returns the intended transition *)
LookupOK ==
    pc # "trie" => \A s \in 0..(n - 1), b \in Bytes : Follow(s, b) = abs[s][b]
ChainLookupOKTrie ==  \* during trie construction there are no dense copies yet
    pc = "trie" => \A s \in 0..(n - 1), b \in Bytes : FollowChain(chain[s], b, 1) = abs[s][b]

(* bytes that share a class are indistinguishable to every state: indexing  *)
(* the dense copy by class loses nothing                                   *)
ClassUniform ==
    pc # "trie" => \A s \in 0..(n - 1), a, b \in Bytes : cls[a] = cls[b] => abs[s][a] = abs[s][b]

(* every byte that labels a trie edge is alone in its class *)
PatternBytesAlone ==
    pc # "trie" => \A s \in (4..(n - 1)) \cup {SU} : \A i \in 1..Len(chain[s]) :
        chain[s][i].nx >= 4 => \A x \in Bytes : cls[x] = cls[chain[s][i].b] => x = chain[s][i].b

(* the anchored start state mirrors the unanchored one except for the loop  *)
AnchoredMirror ==
    pc \in {"densify", "close"} =>
        \A b \in Bytes : abs[SA][b] = (IF abs[SU][b] = SU THEN FAIL ELSE abs[SU][b])

Reach_DenseNonStart == pc = "done" /\ \E s \in 4..(n - 1) : dense[s] # <<>>
Reach_SharedClass == pc = "done" /\ \E a, b \in Bytes : a # b /\ cls[a] = cls[b]
=============================================================================
