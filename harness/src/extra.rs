// C15 (guard pages), C17 (threads), C20 (build + metadata).
use crate::calls::{self, m2v, om2v, Rec, Searcher};
use crate::common::*;
use crate::gen;
use aho_corasick::{AhoCorasick, Input, Span};
use rand::{rngs::StdRng, seq::SliceRandom, Rng};
use serde_json::{json, Value};
use std::io::{Seek, Write};

// ---------------------------------------------------------------------------
// C15: haystacks flush against inaccessible pages

pub struct Guarded {
    base: *mut u8,
    page: usize,
}

impl Guarded {
    /// three pages; the first and the last are PROT_NONE
    pub fn new() -> Guarded {
        unsafe {
            let page = libc::sysconf(libc::_SC_PAGESIZE) as usize;
            let base = libc::mmap(
                std::ptr::null_mut(),
                3 * page,
                libc::PROT_READ | libc::PROT_WRITE,
                libc::MAP_PRIVATE | libc::MAP_ANONYMOUS,
                -1,
                0,
            ) as *mut u8;
            assert!(base as isize != -1, "mmap failed");
            assert_eq!(0, libc::mprotect(base as *mut _, page, libc::PROT_NONE));
            assert_eq!(0, libc::mprotect(base.add(2 * page) as *mut _, page, libc::PROT_NONE));
            Guarded { base, page }
        }
    }
    /// copy `data` so that it ends exactly at the right guard page
    pub fn flush_right(&mut self, data: &[u8]) -> &[u8] {
        assert!(data.len() <= self.page);
        unsafe {
            let p = self.base.add(2 * self.page - data.len());
            std::ptr::copy_nonoverlapping(data.as_ptr(), p, data.len());
            std::slice::from_raw_parts(p, data.len())
        }
    }
    /// copy `data` so that it starts exactly after the left guard page
    pub fn flush_left(&mut self, data: &[u8]) -> &[u8] {
        assert!(data.len() <= self.page);
        unsafe {
            let p = self.base.add(self.page);
            std::ptr::copy_nonoverlapping(data.as_ptr(), p, data.len());
            std::slice::from_raw_parts(p, data.len())
        }
    }
}

fn note_case(f: &mut std::fs::File, v: &Value) {
    let s = serde_json::to_vec(v).unwrap();
    f.set_len(0).unwrap();
    f.seek(std::io::SeekFrom::Start(0)).unwrap();
    f.write_all(&s).unwrap();
}

/// Runs in a child process of the orchestrator. Before every case the case
/// is written to `<out>.current`; a SIGSEGV/SIGBUS/abort is attributed to it.
pub fn run_guard(out_prefix: &str, shards: usize, seed: u64, scale: usize, poke: bool) -> usize {
    let mut out = Out::create(out_prefix, shards);
    let mut shard = 0usize;
    let mut cur = std::fs::File::create(format!("{}.current", out_prefix)).unwrap();
    let mut rg = gen::rng(seed, 0x6A4D_0001);
    let mut g = Guarded::new();
    let mut n = 0usize;
    let maxlen = 3 * 32 + 8;
    let lens: Vec<usize> = if scale > 1 { (0..=maxlen).collect() } else { (0..=maxlen).filter(|l| *l <= 40 || l % 3 == 0 || (60..=70).contains(l)).collect() };
    // automaton-level searchers, chosen so that every prefilter variant occurs
    for i in 0..(6 * scale.max(1)) {
        let pats = calls::prefilter_lists(&mut rg, i);
        for mk in MKS {
            for repr in ["top-auto", "top-nc", "top-c", "top-dfa"] {
                let mut c = Ctx::new(&pats, mk, repr);
                c.pre = true;
                c.ci = i % 6 == 5;
                let s = Searcher::build(&c);
                shard += 1;
                let mut r = Rec::begin(&mut out, shard, &c, &s);
                let s = match s { Ok(s) => s, Err(_) => continue };
                for &len in &lens {
                    for side in ["right", "left"] {
                        let data = if rg.gen_bool(0.5) { gen::random_hay(&mut rg, &pats, c.ci, len) } else { (0..len).map(|_| rg.gen()).collect() };
                        let mut data = data;
                        data.resize(len, 0xFF);
                        // a pattern cut off by the end of the haystack invites an over-read
                        if len > 0 && !pats.is_empty() {
                            let p = &pats[rg.gen_range(0..pats.len())];
                            let k = p.len().min(len).max(1) - if p.len() > 1 && rg.gen_bool(0.5) { 1 } else { 0 };
                            let k = k.min(len).min(p.len());
                            data[len - k..].copy_from_slice(&p[..k]);
                        }
                        note_case(&mut cur, &json!({"ctx": c, "len": len, "side": side, "data": data}));
                        let h = if side == "right" { g.flush_right(&data) } else { g.flush_left(&data) };
                        let sp = (0, len);
                        calls::ev_find(&mut r, &s, h, sp, false, false);
                        calls::ev_find(&mut r, &s, h, sp, false, true);
                        calls::ev_iter(&mut r, &s, h, sp, false);
                        if mk == "std" {
                            calls::ev_overlap_iter(&mut r, &s, h, sp);
                            // stepwise, anchored and not, polled again after the search has ended
                            calls::ev_overlap_step(&mut r, &s, h, sp, false, 3);
                            calls::ev_overlap_step(&mut r, &s, h, sp, true, 3);
                        }
                        calls::ev_find(&mut r, &s, h, sp, true, false);
                        let rep: Vec<Vec<u8>> = (0..pats.len()).map(|_| vec![b'#']).collect();
                        calls::ev_replace_all_bytes(&mut r, &s, h, &rep);
                        r.flush(&data, sp);
                        if len >= 2 {
                            let sp2 = (1, len - 1);
                            calls::ev_find(&mut r, &s, h, sp2, false, false);
                            calls::ev_iter(&mut r, &s, h, sp2, false);
                            r.flush(&data, sp2);
                        }
                        r.flush(&data, sp);
                        n += 1;
                    }
                }
            }
        }
    }
    // packed searchers, every variant
    // every fingerprint length (shortest pattern 1, 2, 3, 4, 5 bytes: Teddy's N = min(4, shortest)),
    // then random lists; every haystack length up to 3 vectors + 8 for these
    let all_lens: Vec<usize> = (0..=maxlen).collect();
    for i in 0..(5 + 8 * scale.max(1)) {
        let pats = if i < 5 {
            let shortest = i + 1;
            let letters = b"qwxzjkvy";
            (0..4).map(|k| (0..shortest + (k % 3)).map(|j| letters[(k * 3 + j) % letters.len()]).collect()).collect()
        } else {
            let pool = gen::POOLS[i % gen::POOLS.len()];
            let mut p = gen::random_pats_over(&mut rg, pool, 6, 5, false);
            if i % 3 == 0 { p.truncate(1); }
            p
        };
        let lens = if i < 5 { &all_lens } else { &lens };
        for mk in ["lf", "ll"] {
            for variant in crate::packed::VARIANTS {
                let s = match crate::packed::build(&pats, mk, variant) { Some(s) => s, None => continue };
                let c = Ctx::new(&pats, mk, "packed");
                shard += 1;
                let cl = out.put(shard, &json!({"ev":"ctx","ctx":c,"built":true,"err":"","kind":variant,"pf":"","pfi":{"variant":"none","bytes":[]}}));
                for &len in lens.iter() {
                    for side in ["right", "left"] {
                        // contents: planted occurrences / random bytes / nothing that matches at all
                        // (the search then runs to the very last window)
                        let kinds: Vec<usize> = if i < 5 { vec![0, 1, 2] } else { vec![(len + if side == "right" { 0 } else { 1 }) % 3] };
                        for kind in kinds {
                        let mut data: Vec<u8> = match kind {
                            0 => gen::random_hay(&mut rg, &pats, false, len),
                            1 => (0..len).map(|_| rg.gen()).collect(),
                            _ => vec![b'.'; len],
                        };
                        data.resize(len, 0x00);
                        if len > 0 && kind != 2 {
                            let p = &pats[rg.gen_range(0..pats.len())];
                            let k = p.len().min(len);
                            let k = if k > 1 && rg.gen_bool(0.5) { k - 1 } else { k };
                            data[len - k..].copy_from_slice(&p[..k]);
                        }
                        note_case(&mut cur, &json!({"packed": variant, "mk": mk, "pats": pats, "len": len, "side": side, "data": data}));
                        let h = if side == "right" { g.flush_right(&data) } else { g.flush_left(&data) };
                        let mut cs = vec![];
                        match guarded(|| s.find_in(h, Span { start: 0, end: len })) {
                            Ok(m) => cs.push(json!(["find", false, false, "ok", om2v(&m), 0])),
                            Err(e) => cs.push(json!(["find", false, false, "panic", e, 0])),
                        }
                        match guarded(|| s.find_iter(h).collect::<Vec<_>>()) {
                            Ok(v) => cs.push(json!(["iter", false, false, "ok", v.iter().map(m2v).collect::<Vec<_>>(), 0])),
                            Err(e) => cs.push(json!(["iter", false, false, "panic", e, 0])),
                        }
                        out.put(shard, &json!({"ev":"multi","c":cl,"hay":data,"s":0,"e":len,"calls":cs}));
                        n += 1;
                        }
                    }
                }
            }
        }
    }
    if poke {
        // self-test of the guard: read one byte past a flush-right haystack
        note_case(&mut cur, &json!({"poke": true}));
        let h = g.flush_right(&[1, 2, 3]);
        let v = unsafe { std::ptr::read_volatile(h.as_ptr().add(3)) };
        println!("poke read {}", v);
    }
    note_case(&mut cur, &json!({"finished": true, "cases": n}));
    out.finish();
    n
}

// ---------------------------------------------------------------------------
// C17: one searcher (and clones) shared by several threads

pub fn run_threads(out_prefix: &str, shards: usize, seed: u64, scale: usize) -> (usize, usize) {
    let mut out = Out::create(out_prefix, shards);
    let mut rg = gen::rng(seed, 0x7412_0001);
    let (mut nctx, mut nev) = (0usize, 0usize);
    for i in 0..(10 * scale) {
        // odd contexts: prefilter-carrying lists; 7 and 9 get the nested packed-friendly variants (6, 7)
        let pats = if i % 2 == 0 { gen::random_pats(&mut rg, 8, 6) } else { calls::prefilter_lists(&mut rg, [1usize, 4, 2, 6, 7][(i / 2) % 5]) };
        let mk = if i >= 7 && i % 2 == 1 { ["lf", "ll"][(i / 2) % 2] } else { MKS[i % 3] };
        let mut c = Ctx::new(&pats, mk, ["top-auto", "top-nc", "top-c", "top-dfa"][i % 4]);
        c.pre = true;
        c.ci = i % 5 == 4;
        let ac = std::sync::Arc::new(build_top(&c).expect("build"));
        let fp_before = format!("{:?}", ac);
        let hays: Vec<Vec<u8>> = (0..24).map(|_| gen::random_hay(&mut rg, &pats, c.ci, 64)).collect();
        let nthreads = [2usize, 4, 8, 16][i % 4];
        let barrier = std::sync::Arc::new(std::sync::Barrier::new(nthreads));
        let mut handles = vec![];
        for t in 0..nthreads {
            let ac = if t % 3 == 2 { std::sync::Arc::new((*ac).clone()) } else { ac.clone() };
            let hays = hays.clone();
            let barrier = barrier.clone();
            let mut trg = gen::rng(seed, 0x7412_1000 + (i * 64 + t) as u64);
            let std_kind = mk == "std";
            handles.push(std::thread::spawn(move || {
                let mut order: Vec<usize> = (0..hays.len()).collect();
                order.shuffle(&mut trg);
                barrier.wait();
                let mut evs: Vec<(usize, Vec<Value>)> = vec![];
                for (seq, &hi) in order.iter().enumerate() {
                    let h = &hays[hi];
                    let mut cs = vec![];
                    // an anchored search first: whatever it leaves behind must not reach the next call
                    let ma = ac.try_find(Input::new(h).anchored(aho_corasick::Anchored::Yes));
                    cs.push(json!(["find", true, false, if ma.is_ok() {"ok"} else {"err"}, om2v(&ma.unwrap_or(None)), seq]));
                    let m = ac.try_find(Input::new(h));
                    cs.push(json!(["find", false, false, if m.is_ok() {"ok"} else {"err"}, om2v(&m.unwrap_or(None)), seq]));
                    let it: Vec<Value> = ac.find_iter(h).map(|m| m2v(&m)).collect();
                    cs.push(json!(["iter", false, false, "ok", it, seq]));
                    cs.push(json!(["is_match", false, false, "ok", ac.is_match(h), seq]));
                    if std_kind {
                        let ov: Vec<Value> = ac.find_overlapping_iter(h).map(|m| m2v(&m)).collect();
                        cs.push(json!(["overlap_iter", false, false, "ok", ov, seq]));
                    }
                    evs.push((hi, cs));
                }
                (t, evs, format!("{:?}", ac))
            }));
        }
        let cl = out.put(i, &json!({"ev":"ctx","ctx":c,"built":true,"err":"","kind":kind_name(ac.kind()),"pf":"",
            "pfi":{"variant":"none","bytes":[]},"threads":nthreads}));
        nctx += 1;
        for h in handles {
            let (t, evs, fp_after) = h.join().expect("thread");
            for (hi, cs) in evs {
                nev += cs.len();
                out.put(i, &json!({"ev":"multi","c":cl,"hay":hays[hi],"s":0,"e":hays[hi].len(),"calls":cs,"thread":t}));
            }
            // the searcher's full table (Debug dump) must be what it was before
            out.put(i, &json!({"ev":"multi","c":cl,"hay":[],"s":0,"e":0,"thread":t,
                "calls":[["same", false, false, "ok", [fp_before == fp_after, fp_before.len(), fp_after.len()], 0]]}));
            nev += 1;
        }
        // one buffer reused for different contents of the same length (same address, same length):
        // a result must depend on the bytes, not on where they live
        {
            let len = 48usize;
            let mut buf = vec![0u8; len];
            for round in 0..24 {
                let src = &hays[(round * 5 + 1) % hays.len()];
                // every other round the buffer holds no occurrence at all (a miss), then the
                // same memory holds a haystack with occurrences again
                let filler = *[b'_', b'~', 0x01, b'0'].iter().find(|b| !pats.iter().any(|q| q.contains(b) || q.contains(&b.to_ascii_uppercase()))).unwrap_or(&b'_');
                for (j, b) in buf.iter_mut().enumerate() {
                    *b = if round % 2 == 0 || j >= src.len() { filler } else { src[j] };
                }
                let m = ac.find(&buf);
                let it: Vec<Value> = ac.find_iter(&buf).map(|m| m2v(&m)).collect();
                let im = ac.is_match(&buf);
                out.put(i, &json!({"ev":"multi","c":cl,"hay":buf,"s":0,"e":len,"thread":-2,
                    "calls":[["find", false, false, "ok", om2v(&m), round],["iter", false, false, "ok", it, round],
                             ["is_match", false, false, "ok", im, round]]}));
                nev += 3;
            }
        }
        // saturation: many searches that confirm one pattern, then a search where another pattern
        // (one that contains it) must win - on short haystacks (the slow path of the packed
        // searchers) and long ones; adaptive heuristics must not change what is reported
        {
            let mut pairs = 0;
            'outer: for p in pats.iter() {
                for q in pats.iter() {
                    if !p.is_empty() && q.len() > p.len() && q[..p.len()] == p[..] {
                        let filler = *[b'!', b'~', 0x01].iter().find(|b| !pats.iter().any(|x| x.contains(b))).unwrap_or(&b'!');
                        let mut short = p.clone();
                        short.push(filler);
                        let mut long = vec![filler; 40];
                        long.extend_from_slice(p);
                        long.push(filler);
                        for round in 0..40 {
                            let h = if round % 4 == 3 { &long } else { &short };
                            let m = ac.find(h);
                            out.put(i, &json!({"ev":"multi","c":cl,"hay":h,"s":0,"e":h.len(),"thread":-3,
                                "calls":[["find", false, false, "ok", om2v(&m), round]]}));
                            nev += 1;
                        }
                        for h in [q.clone(), { let mut v = vec![filler; 40]; v.extend_from_slice(q); v }] {
                            let m = ac.find(&h);
                            let it: Vec<Value> = ac.find_iter(&h).map(|m| m2v(&m)).collect();
                            out.put(i, &json!({"ev":"multi","c":cl,"hay":h,"s":0,"e":h.len(),"thread":-3,
                                "calls":[["find", false, false, "ok", om2v(&m), 0],["iter", false, false, "ok", it, 0]]}));
                            nev += 2;
                        }
                        pairs += 1;
                        if pairs >= 2 { break 'outer; }
                    }
                }
            }
        }
        // sequential histories: the same calls in another order and interleaved with
        // unrelated searches, on the same value
        let mut order: Vec<usize> = (0..hays.len()).collect();
        order.shuffle(&mut rg);
        for &hi in &order {
            let h = &hays[hi];
            let _ = ac.find_iter(&hays[(hi + 7) % hays.len()]).count();
            let _ = ac.try_find(Input::new(h).anchored(aho_corasick::Anchored::Yes));
            let m = ac.find(h);
            let it: Vec<Value> = ac.find_iter(h).map(|m| m2v(&m)).collect();
            out.put(i, &json!({"ev":"multi","c":cl,"hay":h,"s":0,"e":h.len(),"thread":-1,
                "calls":[["find", false, false, "ok", om2v(&m), 0],["iter", false, false, "ok", it, 0]]}));
            nev += 2;
        }
    }
    // stream searches have scratch state of their own (the roll buffer): what one stream search
    // leaves behind on a thread must not influence the next one, whichever searcher runs it.
    // Searchers with longest patterns 1..6 and roll-buffer capacities 2..9 (hook) take turns on
    // the same threads, so that a search often follows one whose buffer was exactly as long as
    // its own longest pattern / its own capacity.
    for round in 0..(2 * scale) {
        let base = 100 + round;
        let mut acs = vec![];
        for l in 1..=6usize {
            let mut pats: Pats = vec![(0..l).map(|j| b"abc"[(j + round) % 3]).collect()];
            pats.push(vec![b"abc"[(l + round) % 3]]);
            if l >= 3 { pats.push(pats[0][1..l - 1].to_vec()); }
            let pats: Pats = pats.into_iter().filter(|p| !p.is_empty()).collect();
            let mut c = Ctx::new(&pats, "std", ["top-auto", "top-nc", "top-c", "top-dfa"][l % 4]);
            c.sk = "unanchored";
            let ac = std::sync::Arc::new(build_top(&c).expect("build"));
            let cl = out.put(base, &json!({"ev":"ctx","ctx":c,"built":true,"err":"","kind":kind_name(ac.kind()),"pf":"",
                "pfi":{"variant":"none","bytes":[]},"threads":4}));
            nctx += 1;
            acs.push((ac, cl, pats, l));
        }
        let hays: Vec<Vec<u8>> = (0..12).map(|k| {
            let n = 20 + 3 * k;
            (0..n).map(|_| b"abc_"[rg.gen_range(0..4)]).collect()
        }).collect();
        let mut handles = vec![];
        for t in 0..4usize {
            let acs: Vec<(std::sync::Arc<AhoCorasick>, usize, Pats, usize)> = acs.iter().map(|(a, cl, p, l)| (a.clone(), *cl, p.clone(), *l)).collect();
            let hays = hays.clone();
            let mut trg = gen::rng(seed, 0x7412_9000 + (round * 8 + t) as u64);
            handles.push(std::thread::spawn(move || {
                let mut evs: Vec<Value> = vec![];
                for seq in 0..60usize {
                    let (ac, cl, pats, l) = &acs[trg.gen_range(0..acs.len())];
                    let h = &hays[trg.gen_range(0..hays.len())];
                    // capacities from the longest pattern + 1 upwards; 0 = the default capacity
                    let cap = if trg.gen_range(0..8) == 0 { 0 } else { l + 1 + trg.gen_range(0..4) };
                    aho_corasick::verif::set_buffer_capacity(if cap == 0 { None } else { Some(cap) });
                    let sizes = [1usize, 2, 3, 5, 64];
                    let step = sizes[trg.gen_range(0..sizes.len())];
                    struct Chunked<'a> { d: &'a [u8], step: usize }
                    impl<'a> std::io::Read for Chunked<'a> {
                        fn read(&mut self, buf: &mut [u8]) -> std::io::Result<usize> {
                            let n = self.step.min(buf.len()).min(self.d.len());
                            buf[..n].copy_from_slice(&self.d[..n]);
                            self.d = &self.d[n..];
                            Ok(n)
                        }
                    }
                    let g = guarded(|| {
                        let mut v: Vec<Value> = vec![];
                        for item in ac.stream_find_iter(Chunked { d: h, step }) {
                            match item { Ok(m) => v.push(m2v(&m)), Err(e) => return Err(e.to_string()) }
                        }
                        Ok(v)
                    });
                    let (o, res) = match g { Ok(Ok(v)) => ("ok", json!(v)), Ok(Err(e)) => ("err", json!(e)), Err(p) => ("panic", json!(p)) };
                    let rep: Vec<Vec<u8>> = (0..pats.len()).map(|k| vec![b'<', b'0' + k as u8, b'>']).collect();
                    let g2 = guarded(|| { let mut w = vec![]; ac.try_stream_replace_all(Chunked { d: h, step }, &mut w, &rep).map(|_| w).map_err(|e| e.to_string()) });
                    let (o2, res2) = match g2 { Ok(Ok(v)) => ("ok", json!(v)), Ok(Err(e)) => ("err", json!(e)), Err(p) => ("panic", json!(p)) };
                    aho_corasick::verif::set_buffer_capacity(None);
                    evs.push(json!({"ev":"multi","c":cl,"hay":h,"s":0,"e":h.len(),"thread":t,"cap":cap,"step":step,
                        "calls":[["iter", false, false, o, res, seq],
                                 ["replace", false, false, o2, res2, {"var":"stream_all_bytes","R":rep,"stop":0,"str":false}]]}));
                }
                evs
            }));
        }
        for h in handles {
            for ev in h.join().expect("thread") {
                out.put(base, &ev);
                nev += 2;
            }
        }
    }
    out.finish();
    (nctx, nev)
}

// ---------------------------------------------------------------------------
// C20: building and metadata

fn build_shapes(rg: &mut StdRng, big: bool) -> Vec<(String, Pats)> {
    let mut v: Vec<(String, Pats)> = vec![];
    v.push(("none".into(), vec![]));
    v.push(("only-empty".into(), vec![vec![], vec![], vec![]]));
    v.push(("dups".into(), vec![b"ab".to_vec(), b"ab".to_vec(), b"a".to_vec(), b"ab".to_vec()]));
    v.push(("all-bytes".into(), (0..=255u8).map(|b| vec![b]).collect()));
    v.push(("all-bytes-one".into(), vec![(0..=255u8).collect()]));
    v.push(("fan-256".into(), (0..=255u8).map(|b| vec![b'x', b, b'y']).collect()));
    v.push(("fan-200-deep".into(), (0..200u8).map(|b| vec![b'x', b'y', b, b]).collect()));
    // fan-outs at the sparse / dense threshold of the contiguous NFA (127) and just below it
    for n in [124u8, 125, 126, 127, 128] {
        v.push((format!("fan-{}-deep", n), (0..n).map(|b| vec![b'x', b'y', b'z', b.wrapping_add(60), b'q']).collect()));
    }
    v.push(("long-300".into(), vec![(0..300).map(|i| b'a' + (i % 23) as u8).collect(), b"zz".to_vec()]));
    v.push(("p101".into(), (0..101).map(|i| format!("w{}x", i).into_bytes()).collect()));
    v.push(("p100".into(), (0..100).map(|i| format!("w{}x", i).into_bytes()).collect()));
    v.push(("mixed-empty".into(), vec![b"abc".to_vec(), vec![], b"bc".to_vec(), vec![], b"c".to_vec()]));
    v.push(("nested".into(), (0..40).map(|i| vec![b'a'; i + 1]).collect()));
    for i in 0..4 {
        v.push((format!("rand{}", i), gen::random_pats(rg, 12, 10)));
    }
    // enough states that, with every state dense and 256 byte classes, the contiguous NFA and the
    // DFA need more than 2^24 words / state ids beyond 2^24 (a collection far inside the
    // documented limits)
    v.push(("bulk-1200x64".into(), (0..1200).map(|i| { let mut r = gen::rng(i as u64, 0xB18); (0..64).map(|_| r.gen_range(0..=255u8)).collect() }).collect()));
    // around the packed searcher's pattern limit (128): diverse first bytes and length >= 2, so that a
    // leftmost searcher with a prefilter considers the packed one
    // ... and around 8-bit counter boundaries (255, 256, 257, 258, 513)
    for n in [127usize, 128, 129, 130, 140, 193, 255, 256, 257, 258, 260, 513] {
        v.push((format!("diverse-{}", n), (0..n).map(|i| {
            let mut r = gen::rng(i as u64, 0xB19);
            let mut w = vec![b'!' + (i % 90) as u8, b'a' + ((i / 90) % 26) as u8];
            w.extend((0..r.gen_range(1..=3)).map(|_| b'a' + r.gen_range(0..26u8)));
            w
        }).collect()));
    }
    if big {
        v.push(("p3000x60".into(), (0..3000).map(|i| { let mut r = gen::rng(i as u64, 0xB16); (0..r.gen_range(20..=60)).map(|_| b'a' + r.gen_range(0..6u8)).collect() }).collect()));
        v.push(("p500x300".into(), (0..500).map(|i| { let mut r = gen::rng(i as u64, 0xB17); (0..300).map(|_| r.gen_range(0..=255u8)).collect() }).collect()));
    }
    v
}

pub fn run_build(out_prefix: &str, shards: usize, seed: u64, scale: usize) -> usize {
    let mut out = Out::create(out_prefix, shards);
    let mut rg = gen::rng(seed, 0xB01D_0001);
    let mut n = 0usize;
    let shapes = build_shapes(&mut rg, scale > 1);
    for (si, (name, pats)) in shapes.iter().enumerate() {
        let lens: Vec<usize> = pats.iter().map(|p| p.len()).collect();
        let total: usize = lens.iter().sum();
        for req in ["auto", "nc", "c", "dfa"] {
            for mk in MKS {
                for sk in SKS {
                    for (ci, pre, dd, bc) in [(false, true, -1i64, true), (true, false, 0, false), (false, false, 2, true), (true, true, 1000, true)] {
                        // keep DFAs of huge collections out of the quick tier
                        if total > 20_000 && (req == "dfa" || req == "auto") && !(mk == "std" && sk == "unanchored" && !ci) {
                            continue;
                        }
                        if name.starts_with("bulk") && (sk != "unanchored" || mk == "ll") {
                            continue;
                        }
                        let mut c = Ctx::new(pats, mk, match req { "nc" => "top-nc", "c" => "top-c", "dfa" => "top-dfa", _ => "top-auto" });
                        c.sk = sk;
                        c.ci = ci;
                        c.pre = pre;
                        c.dd = dd;
                        c.bc = bc;
                        let r = guarded(|| build_top(&c));
                        let ev = match r {
                            Ok(Ok(ac)) => {
                                let mkrep = match ac.match_kind() { aho_corasick::MatchKind::Standard => "std", aho_corasick::MatchKind::LeftmostFirst => "lf", aho_corasick::MatchKind::LeftmostLongest => "ll", _ => "?" };
                                let skrep = match ac.start_kind() { aho_corasick::StartKind::Both => "both", aho_corasick::StartKind::Unanchored => "unanchored", aho_corasick::StartKind::Anchored => "anchored" };
                                // per-pattern length: through the low-level automaton built with the same options
                                let low = { let mut lc = c.clone(); lc.repr = "nc"; build_low(&lc) };
                                let plens: Vec<usize> = match &low {
                                    Ok(Aut::NC(a)) => { use aho_corasick::automaton::Automaton; (0..a.patterns_len()).map(|k| a.pattern_len(aho_corasick::PatternID::new(k).unwrap())).collect() }
                                    _ => vec![],
                                };
                                json!({"ev":"build","shape":name,"req":req,"mk":mk,"sk":sk,"ci":ci,"pre":pre,"dd":dd,"bc":bc,
                                    "lens":lens,"built":true,"err":"","kind":kind_name(ac.kind()),"npat":ac.patterns_len(),
                                    "minlen": if pats.is_empty() { -1 } else { ac.min_pattern_len() as i64 },
                                    "maxlen":ac.max_pattern_len(),"plens":plens,"mkrep":mkrep,"skrep":skrep})
                            }
                            Ok(Err(e)) => json!({"ev":"build","shape":name,"req":req,"mk":mk,"sk":sk,"lens":lens,"built":false,"err":e}),
                            Err(p) => json!({"ev":"build","shape":name,"req":req,"mk":mk,"sk":sk,"lens":lens,"built":false,"err":format!("panic: {}", p)}),
                        };
                        out.put(si, &ev);
                        n += 1;
                    }
                }
            }
        }
    }
    out.finish();
    n
}

/// pattern ids are positions in the input order: search each pattern as a
/// haystack (anchored), also for large collections (validated as "a genuine
/// occurrence of the reported id", which needs only that one pattern)
pub fn run_ids(out_prefix: &str, shards: usize, seed: u64, scale: usize) -> (usize, usize) {
    let mut out = Out::create(out_prefix, shards);
    let mut rg = gen::rng(seed, 0xB01D_0002);
    let shapes = build_shapes(&mut rg, scale > 1);
    let (mut nc, mut ne) = (0usize, 0usize);
    for (si, (_name, pats)) in shapes.iter().enumerate() {
        if pats.is_empty() || pats.len() > 600 && scale < 2 {
            continue;
        }
        for mk in MKS {
            for repr in ["top-auto", "top-nc", "top-c"] {
                let mut c = Ctx::new(pats, mk, repr);
                c.pre = si % 2 == 0 || _name.starts_with("diverse");
                let s = Searcher::build(&c);
                let mut r = Rec::begin(&mut out, si, &c, &s);
                nc += 1;
                let s = match s { Ok(s) => s, Err(_) => continue };
                let step = (pats.len() / 60).max(1);
                for k in (0..pats.len()).step_by(step) {
                    let h = pats[k].clone();
                    let g = guarded(|| s.try_find(Input::new(&h).anchored(aho_corasick::Anchored::Yes)).map(|m| om2v(&m)));
                    let (o, res) = match g { Ok(Ok(v)) => ("ok", v), Ok(Err(e)) => ("err", json!(e.to_string())), Err(p) => ("panic", json!(p)) };
                    r.put(json!(["occ", true, false, o, res, k]));
                    r.flush(&h, (0, h.len()));
                    ne += 1;
                    // ... and unanchored inside padding long enough for vector prefilters (the id must
                    // survive whatever renumbering a prefilter does internally)
                    if pats.len() <= 600 {
                        let mut h2 = vec![b' '; 24];
                        h2.extend_from_slice(&pats[k]);
                        h2.extend(vec![b' '; 24]);
                        let g = guarded(|| s.try_find(Input::new(&h2)).map(|m| om2v(&m)));
                        let (o, res) = match g { Ok(Ok(v)) => ("ok", v), Ok(Err(e)) => ("err", json!(e.to_string())), Err(p) => ("panic", json!(p)) };
                        r.put(json!(["find", false, false, o, res, k]));
                        r.flush(&h2, (0, h2.len()));
                        ne += 1;
                    }
                }
            }
        }
    }
    out.finish();
    (nc, ne)
}

// ---------------------------------------------------------------------------
// Input as a state machine (spec/ACInput.tla): histories of setter calls on a
// real Input, each followed by what the Input reports and by what a search for
// the empty pattern with that configuration returns.  No expectation is
// computed here.
pub fn run_inputops(out_prefix: &str, shards: usize, seed: u64, scale: usize) -> usize {
    let mut out = Out::create(out_prefix, shards);
    let mut rg = gen::rng(seed, 0x1A9F_0007);
    let names = ["set_span", "set_start", "set_end", "range", "range_incl", "range_from",
                 "range_to", "range_to_incl", "range_full", "anchored", "earliest"];
    let acs: Vec<AhoCorasick> = [aho_corasick::AhoCorasickKind::NoncontiguousNFA,
                                 aho_corasick::AhoCorasickKind::ContiguousNFA,
                                 aho_corasick::AhoCorasickKind::DFA]
        .iter()
        .map(|k| AhoCorasick::builder().kind(Some(*k)).start_kind(aho_corasick::StartKind::Both)
            .build([""]).unwrap())
        .collect();
    let hay = vec![b'x'; 8];
    let mut n = 0usize;
    for h in 0..(3000 * scale) {
        let len = rg.gen_range(0..=6usize);
        let nops = rg.gen_range(1..=8usize);
        let ac = &acs[h % acs.len()];
        let mut input = Input::new(&hay[..len]);
        let mut ops: Vec<Value> = vec![];
        for _ in 0..nops {
            let name = names[rg.gen_range(0..names.len())];
            // arguments around the current span and the haystack end, sometimes beyond
            let pick = |rg: &mut StdRng, input: &Input| -> usize {
                match rg.gen_range(0..5) {
                    0 => input.start(),
                    1 => input.end(),
                    2 => len,
                    3 => rg.gen_range(0..=len + 2),
                    _ => rg.gen_range(0..=len),
                }
            };
            let (a, b) = (pick(&mut rg, &input), pick(&mut rg, &input));
            let (a, b) = match name {
                "range_full" => (0, 0),
                "anchored" | "earliest" => (rg.gen_range(0..2usize), 0),
                "set_start" | "set_end" | "range_from" | "range_to" | "range_to_incl" => (a, 0),
                _ => (a, b),
            };
            let mut cand = input.clone();
            let g = guarded(|| {
                match name {
                    "set_span" => cand.set_span(Span { start: a, end: b }),
                    "set_start" => cand.set_start(a),
                    "set_end" => cand.set_end(a),
                    "range" => cand.set_range(a..b),
                    "range_incl" => cand.set_range(a..=b),
                    "range_from" => cand.set_range(a..),
                    "range_to" => cand.set_range(..a),
                    "range_to_incl" => cand.set_range(..=a),
                    "range_full" => cand.set_range(..),
                    "anchored" => cand.set_anchored(if a != 0 { aho_corasick::Anchored::Yes } else { aho_corasick::Anchored::No }),
                    "earliest" => cand.set_earliest(a != 0),
                    _ => unreachable!(),
                }
                cand
            });
            let o = match g {
                Ok(c) => { input = c; "ok" }
                // the candidate was moved into the closure; `input` is the configuration from
                // before the call, which is what a caller that caught the panic still holds
                Err(_) => "panic",
            };
            let found = match guarded(|| ac.try_find(input.clone())) {
                Ok(Ok(Some(m))) => json!(format!("{}..{}", m.start(), m.end())),
                Ok(Ok(None)) => json!("none"),
                Ok(Err(e)) => json!(format!("err {}", e)),
                Err(p) => json!(format!("panic {}", p)),
            };
            ops.push(json!([name, a, b, o, input.start(), input.end(), input.is_done(),
                            input.get_anchored().is_anchored(), input.get_earliest(), found]));
            n += 1;
        }
        out.put(h, &json!({"ev": "input", "len": len, "ops": ops}));
    }
    out.finish();
    n
}

#[allow(dead_code)]
fn unused(_: &AhoCorasick) {}
