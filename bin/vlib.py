#!/usr/bin/env python3
"""Shared machinery of the orchestrator: build the harness from /repo's working
tree, run it, run TLC (model checking, product exploration, trace validation),
collect what TLC said, write evidence, classify findings.

Nothing here decides a property: decisions are TLC's (invariant violations,
DISAGREE / REJECT lines printed by the specification)."""
import concurrent.futures
import json
import os
import re
import shutil
import subprocess
import sys
import time

VERIF = os.path.dirname(os.path.dirname(os.path.abspath(__file__)))
SPEC = os.path.join(VERIF, "spec")
HARNESS = os.path.join(VERIF, "harness")
WORK = os.path.join(VERIF, "work")
EVID = os.path.join(VERIF, "evidence")
REPLAY = os.path.join(EVID, "replay")
BIN = os.path.join(HARNESS, "target", "release", "acverif")
KNOWN = os.path.join(VERIF, "known_findings.json")
NCPU = os.cpu_count() or 4


class ToolError(Exception):
    pass


class HarnessCrash(Exception):
    """The process running the real code died from a signal raised by that code
    (SIGSEGV, SIGBUS, SIGABRT, SIGILL, SIGFPE): data about the code under test."""

    def __init__(self, args, rc, tail):
        Exception.__init__(self, "harness %s killed by signal %d" % (args[0], -rc))
        self.hargs = [str(a) for a in args]
        self.rc = rc
        self.tail = tail


def log(*a):
    print(*a, flush=True)


def seed():
    try:
        return int(os.environ.get("VERIF_SEED", "1"))
    except ValueError:
        return 1


def build_harness():
    """(Re)build the harness and, through its path dependency, the crate in
    /repo's current working tree with the hooks enabled."""
    t = time.time()
    env = dict(os.environ, CARGO_NET_OFFLINE="true")
    r = subprocess.run(
        ["cargo", "build", "--release", "--offline"],
        cwd=HARNESS, env=env, stdout=subprocess.PIPE, stderr=subprocess.STDOUT, text=True,
    )
    if r.returncode != 0:
        # a tree that does not compile is a tool error, not a property violation
        sys.stdout.write(r.stdout[-4000:])
        raise ToolError("harness / crate build failed")
    return time.time() - t


def workdir(name):
    d = os.path.join(WORK, name)
    shutil.rmtree(d, ignore_errors=True)
    os.makedirs(d, exist_ok=True)
    return d


def run_harness(args, timeout=1800):
    r = subprocess.run([BIN] + [str(a) for a in args], stdout=subprocess.PIPE,
                       stderr=subprocess.PIPE, text=True, timeout=timeout)
    if r.returncode in (-11, -7, -6, -4, -8):
        raise HarnessCrash(args, r.returncode, r.stderr[-1500:])
    if r.returncode == 97:
        # the harness's own monitor: a call into the code under test did not return
        raise HarnessCrash(args, -97, r.stderr[-4500:])
    if r.returncode != 0:
        raise ToolError("harness %s failed (%d): %s" % (args[0], r.returncode, r.stderr[-2000:]))
    last = [l for l in r.stdout.splitlines() if l.strip()]
    try:
        return json.loads(last[-1]) if last else {}
    except json.JSONDecodeError:
        return {"raw": r.stdout[-2000:]}


TLC_JAR = "/opt/veriftools/tla/tla2tools.jar:/opt/veriftools/tla/CommunityModules-deps.jar"


class TlcResult:
    def __init__(self, out, rc, wall):
        self.out = out
        self.rc = rc
        self.wall = wall
        m = re.search(r"(\d+) states generated, (\d+) distinct states found", out)
        self.generated = int(m.group(1)) if m else 0
        self.distinct = int(m.group(2)) if m else 0
        self.finished = "Model checking completed" in out or "Finished in" in out
        self.violated = re.findall(r"Error: Invariant (\w+) is violated", out)
        self.violated += re.findall(r"Error: Action property (\w+) is violated", out)
        self.violated += re.findall(r"Error: Temporal properties were violated", out)
        self.errors = [l for l in out.splitlines() if l.startswith("Error:")]
        self.printed = []  # JSON payloads of PrintT("TAG {...}") lines
        for l in out.splitlines():
            if l.startswith('"') and l.endswith('"'):
                try:
                    s = json.loads(l)
                except json.JSONDecodeError:
                    continue
                sp = s.split(" ", 1)
                if len(sp) == 2 and sp[1].startswith(("{", "[")):
                    try:
                        self.printed.append((sp[0], json.loads(sp[1])))
                    except json.JSONDecodeError:
                        pass

    def tagged(self, tag):
        return [p for (t, p) in self.printed if t == tag]


def run_tlc(module, cfg, name, env=None, workers=NCPU, timeout=3000, xmx="8g",
            simulate=None, extra=None, deque=False):
    """Run TLC on spec/<module>.tla with spec/<cfg>. Returns TlcResult.
    Tool failures (timeout, parse errors, crashes) raise ToolError."""
    md = os.path.join(WORK, "md_" + name)
    shutil.rmtree(md, ignore_errors=True)
    e = dict(os.environ)
    if env:
        e.update({k: str(v) for k, v in env.items()})
    jopts = ["-Xss1g", "-Xmx" + xmx, "-XX:+UseParallelGC"]
    if deque:
        jopts.append("-Dtlc2.tool.queue.IStateQueue=StateDeque")
    cmd = ["java"] + jopts + ["-cp", TLC_JAR, "tlc2.TLC", "-workers", str(workers),
                               "-metadir", md, "-cleanup", "-noGenerateSpecTE",
                               "-config", cfg]
    if simulate:
        cmd += ["-simulate", simulate]
    if extra:
        cmd += extra
    cmd += [module + ".tla"]
    t = time.time()
    try:
        r = subprocess.run(cmd, cwd=SPEC, env=e, stdout=subprocess.PIPE,
                           stderr=subprocess.STDOUT, text=True, timeout=timeout)
    except subprocess.TimeoutExpired:
        raise ToolError("TLC timed out on %s/%s after %ds" % (module, cfg, timeout))
    finally:
        shutil.rmtree(md, ignore_errors=True)
    res = TlcResult(r.stdout, r.returncode, time.time() - t)
    hard = [x for x in res.errors
            if "is violated" not in x and "properties were violated" not in x
            and "The behavior up to this point" not in x and "The following behavior" not in x]
    if hard or (not res.finished and not res.violated):
        tail = "\n".join(r.stdout.splitlines()[-40:])
        raise ToolError("TLC failed on %s/%s:\n%s" % (module, cfg, tail))
    return res


def tlc_many(jobs, parallel=NCPU):
    """jobs: list of dicts of run_tlc kwargs. Runs them concurrently."""
    out = [None] * len(jobs)
    with concurrent.futures.ThreadPoolExecutor(max_workers=parallel) as ex:
        futs = {ex.submit(run_tlc, **j): i for i, j in enumerate(jobs)}
        for f in concurrent.futures.as_completed(futs):
            out[futs[f]] = f.result()
    return out


def read_ndjson_line(path, lineno):
    with open(path) as f:
        for i, l in enumerate(f, 1):
            if i == lineno:
                return json.loads(l)
    return None


def count_lines(path):
    n = 0
    with open(path, "rb") as f:
        for _ in f:
            n += 1
    return n


# ----------------------------------------------------------------------------
# findings

def load_known():
    if not os.path.exists(KNOWN):
        return {"known": [], "fixed": []}
    with open(KNOWN) as f:
        return json.load(f)


class Check:
    """Accumulates the outcome of one property check and writes its evidence."""

    def __init__(self, pid, tier, level):
        self.pid = pid
        self.tier = tier
        self.level = level
        self.t0 = time.time()
        self.states = 0
        self.transitions = 0
        self.traces = 0
        self.evaluations = 0
        self.distinct = 0      # measured by the stages (distinct non-trivial cases)
        self.samples = []
        self.stages = []
        self.violations = []   # dicts
        self.known_hits = []
        self.drift = []
        self.assumptions = []
        self.extra = {}
        self.known = load_known()
        os.makedirs(EVID, exist_ok=True)
        os.makedirs(REPLAY, exist_ok=True)
        os.makedirs(WORK, exist_ok=True)

    def stage(self, name, **kw):
        kw["stage"] = name
        self.stages.append(kw)
        log("[%s] %s %s" % (self.pid, name, json.dumps({k: v for k, v in kw.items() if k != "stage"})[:300]))

    def add_tlc(self, res):
        self.states += res.distinct
        self.transitions += res.generated

    def sample(self, s, cap=6):
        if len(self.samples) < cap:
            self.samples.append(s)

    def violation(self, what, replay_obj):
        """A property-level predicate failed (or the model violates its invariant)."""
        sig = replay_obj.get("signature", what)
        for k in self.known.get("known", []):
            if k.get("property") == self.pid and k.get("signature") == sig:
                self.known_hits.append(k)
                return
        self.violations.append({"what": what, "replay": replay_obj})

    def finish(self):
        wall = time.time() - self.t0
        for k in {json.dumps(k, sort_keys=True) for k in self.known_hits}:
            kk = json.loads(k)
            log("KNOWN-FINDING: property=%s %s" % (self.pid, kk.get("what", kk.get("signature"))))
        paths = []
        for i, v in enumerate(self.violations[:20]):
            p = os.path.join(REPLAY, "%s-%d.json" % (self.pid, i))
            with open(p, "w") as f:
                json.dump({"property": self.pid, "what": v["what"], "replay": v["replay"]}, f, indent=1)
            paths.append(p)
        cov = {
            "states": self.states,
            "transitions": self.transitions,
            "traces_validated_against_impl": self.traces,
            "evaluations": max(self.evaluations, self.traces),
            "distinct_nontrivial": self.distinct,
            "rule": self.extra.pop("rule", "") + " | distinct_nontrivial is measured: distinct (context, haystack, span, call kind, anchoring) "
                    "tuples with >=1 pattern and a non-empty span among recorded calls, plus distinct dumped automata "
                    "with >=3 reachable states, plus distinct recorded lines of other event kinds",
            "samples": self.samples if self.samples else ["(no sample recorded)"],
            "stages": self.stages,
            "drift": self.drift[:50],
            "exhaustive": self.extra.pop("exhaustive", False),
        }
        cov.update(self.extra)
        ev = {
            "property_id": self.pid,
            "tier": self.tier,
            "seed": seed(),
            "level": self.level,
            "coverage": cov,
            "assumptions": self.assumptions,
            "wall_s": round(wall, 2),
            "violations": len(self.violations),
        }
        with open(os.path.join(EVID, self.pid + ".json"), "w") as f:
            json.dump(ev, f, indent=1)
        for d in self.drift[:10]:
            log("DRIFT property=%s %s" % (self.pid, json.dumps(d)[:300]))
        if self.violations:
            for v, p in zip(self.violations, paths):
                log("VIOLATION property=%s replay=%s" % (self.pid, p))
                log("  " + v["what"][:400])
            if len(self.violations) > len(paths):
                log("  (+%d more violations not written)" % (len(self.violations) - len(paths)))
            return 1
        log("[%s] held on everything explored: states=%d transitions=%d impl-traces=%d wall=%.1fs"
            % (self.pid, self.states, self.transitions, self.traces, wall))
        return 0
