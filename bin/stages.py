#!/usr/bin/env python3
"""Reusable check stages: model checking (M), product exploration (B1),
call-level trace validation (B2)."""
import hashlib
import json
import os
import shutil

import subprocess

from vlib import (NCPU, SPEC, WORK, BIN, ToolError, count_lines, log, read_ndjson_line,
                  run_harness, run_tlc, seed, tlc_many, workdir)


def _h(obj):
    return hashlib.blake2b(json.dumps(obj, sort_keys=True).encode(), digest_size=12).digest()


def distinct_calls(files):
    """Measured: number of recorded calls whose (context, haystack, span, call kind, anchoring)
    is distinct AND non-trivial (the context has >= 1 pattern and the searched span is
    non-empty: there is something to search for and something to search in)."""
    seen = set()
    for f in files:
        ctxs = {}
        with open(f) as fh:
            for i, l in enumerate(fh, 1):
                e = json.loads(l)
                if e.get("ev") == "ctx":
                    ctxs[i] = (_h(e["ctx"]), len(e["ctx"]["pats"]) > 0)
                elif e.get("ev") == "multi":
                    ch, nonempty = ctxs.get(e["c"], (b"", False))
                    if not nonempty or e["e"] <= e["s"]:
                        continue
                    base = _h([e["hay"], e["s"], e["e"]])
                    for c in e["calls"]:
                        seen.add(ch + base + _h(c[:3] + [c[5]]))
    return len(seen)


def total_calls(files):
    n = 0
    for f in files:
        with open(f) as fh:
            for l in fh:
                e = json.loads(l)
                if e.get("ev") == "multi":
                    n += len(e["calls"])
    return n


def distinct_lines(files, drop=()):
    """Measured: number of distinct recorded lines (ignoring the fields in `drop`)."""
    seen = set()
    for f in files:
        with open(f) as fh:
            for l in fh:
                e = json.loads(l)
                for k in drop:
                    e.pop(k, None)
                seen.add(_h(e))
    return len(seen)


def distinct_automata(files):
    """Measured: distinct dumped automata (by configuration) with >= 3 reachable states."""
    seen = set()
    for f in files:
        with open(f) as fh:
            for l in fh:
                e = json.loads(l)
                if len(e.get("states", [])) >= 3:
                    seen.add(_h(e["ctx"]))
    return len(seen)


def write_cfg(name, spec="Spec", constants=None, invariants=(), properties=(), view=None,
              constraint=None):
    p = os.path.join(WORK, "cfg_%s.cfg" % name)
    os.makedirs(WORK, exist_ok=True)
    with open(p, "w") as f:
        f.write("SPECIFICATION %s\n" % spec)
        if constants:
            f.write("CONSTANTS\n")
            for k, v in constants.items():
                f.write("  %s = %s\n" % (k, v))
        for i in invariants:
            f.write("INVARIANT %s\n" % i)
        for i in properties:
            f.write("PROPERTY %s\n" % i)
        if view:
            f.write("VIEW %s\n" % view)
        if constraint:
            f.write("CONSTRAINT %s\n" % constraint)
        f.write("CHECK_DEADLOCK FALSE\n")
    return p


def tla_set(xs):
    def one(x):
        if isinstance(x, bool):
            return "TRUE" if x else "FALSE"
        if isinstance(x, str):
            return '"%s"' % x
        return str(x)
    return "{" + ", ".join(one(x) for x in xs) + "}"


def mc(ck, module, name, constants, invariants, properties=(), view=None, timeout=3000,
       min_states=1, xmx="16g", constraint=None, spec="Spec"):
    """Model-check one operational module exhaustively within `constants`."""
    cfg = write_cfg(name, spec=spec, constants=constants, invariants=invariants, properties=properties,
                    view=view, constraint=constraint)
    res = run_tlc(module, cfg, name, workers=NCPU, timeout=timeout, xmx=xmx)
    ck.add_tlc(res)
    ck.stage("model:" + module, cfg=name, constants=constants, invariants=list(invariants),
             properties=list(properties), distinct=res.distinct, generated=res.generated,
             wall=round(res.wall, 1), violated=res.violated)
    if res.distinct < min_states:
        raise ToolError("vacuous model run %s: %d states" % (name, res.distinct))
    if res.violated:
        # keep the counterexample as the replay
        lines = res.out.splitlines()
        idx = next((i for i, l in enumerate(lines) if l.startswith("Error:")), 0)
        ck.violation("the model %s violates %s within %s" % (module, res.violated, constants),
                     {"signature": "model:%s:%s" % (module, ",".join(res.violated)),
                      "kind": "tlc-counterexample", "module": module, "constants": constants,
                      "trace": lines[idx:idx + 120]})
    return res


def apalache_inductive(ck, module, name, init="Init", ind_init="IndInit", ind_inv="IndInv", safety="Safety",
                       timeout=900):
    """Unbounded safety of an integer model by an inductive invariant, discharged by Apalache:
    Init => IndInv, IndInv /\\ Next => IndInv', IndInv => Safety."""
    import subprocess
    import time as _t
    od = os.path.join(WORK, "apa_" + name)
    shutil.rmtree(od, ignore_errors=True)
    steps = [("base: Init => IndInv", ["--init=" + init, "--inv=" + ind_inv, "--length=0"]),
             ("step: IndInv /\\ Next => IndInv'", ["--init=" + ind_init, "--inv=" + ind_inv, "--length=1"]),
             ("IndInv => Safety", ["--init=" + ind_init, "--inv=" + safety, "--length=0"]),
             ("reachable states satisfy IndInv (6 steps)", ["--init=" + init, "--inv=" + ind_inv, "--length=6"])]
    t0 = _t.time()
    outcomes = []
    for what, args in steps:
        try:
            p = subprocess.run(["apalache-mc", "check"] + args + ["--out-dir=" + od, module + ".tla"], cwd=SPEC,
                               stdout=subprocess.PIPE, stderr=subprocess.STDOUT, text=True, timeout=timeout)
        except subprocess.TimeoutExpired:
            raise ToolError("apalache timed out on %s (%s)" % (module, what))
        if "The outcome is: NoError" in p.stdout:
            outcomes.append([what, "NoError"])
        elif "The outcome is: Error" in p.stdout and "invariant" in p.stdout:
            outcomes.append([what, "Error"])
            ck.violation("the model %s fails its inductive-invariant obligation: %s" % (module, what),
                         {"signature": "apalache:%s:%s" % (module, what), "kind": "apalache-counterexample",
                          "module": module, "obligation": what, "log": p.stdout.splitlines()[-25:]})
        else:
            raise ToolError("apalache failed on %s (%s): %s" % (module, what, p.stdout[-600:]))
    ck.evaluations += len(steps)
    ck.stage("proof:" + module, engine="apalache", obligations=outcomes, wall=round(_t.time() - t0, 1))


def product(ck, name, families, full=False, shards=2, timeout=3000, mks=("std", "lf", "ll")):
    """B1: dump the real automata, explore the product with the spec automaton."""
    wd = workdir("prod_" + name)
    prefix = os.path.join(wd, "dump")
    st = run_harness(["dump", "--families", ",".join(families), "--out", prefix,
                      "--shards", shards, "--seed", seed(), "--full", "true" if full else "false",
                      "--mks", ",".join(mks)])
    jobs = []
    files = []
    for i in range(shards):
        f = "%s.%d.ndjson" % (prefix, i)
        if count_lines(f) == 0:
            continue
        files.append(f)
        jobs.append(dict(module="Prod", cfg=os.path.join(SPEC, "Prod.cfg"),
                         name="prod_%s_%d" % (name, i), env={"DUMP": f},
                         workers=max(2, NCPU // shards), timeout=timeout, xmx="12g"))
    results = tlc_many(jobs, parallel=shards)
    nd = 0
    for f, res in zip(files, results):
        ck.add_tlc(res)
        for d in res.tagged("DISAGREE"):
            nd += 1
            if d["kind"].startswith("drift"):
                if len(ck.drift) < 50:
                    c = read_ndjson_line(f, d["ctx"])
                    ck.drift.append({"kind": d["kind"], "ctx": c["ctx"], "mode": d["mode"],
                                     "path": d["path"], "why": d["why"]})
                continue
            if len(ck.violations) + len(ck.known_hits) > 200:
                continue
            c = read_ndjson_line(f, d["ctx"])
            ctx = c["ctx"]
            sig = "prod:%s:%s:%s:%s" % (d["kind"], ctx["mk"], json.dumps(ctx["pats"]), d["mode"])
            ck.violation(
                "automaton %s (%s, ci=%s, pats=%s) disagrees with the specification after bytes %s "
                "in mode %s: %s %s" % (ctx["repr"], ctx["mk"], ctx["ci"], ctx["pats"], d["path"],
                                       d["mode"], d["kind"], d["why"]),
                {"signature": sig, "kind": "product", "ctx": ctx, "mode": d["mode"],
                 "path": d["path"], "disagreement": d["kind"], "why": d["why"]})
    ck.traces += st.get("automata", 0)
    ck.evaluations += st.get("automata", 0)
    ck.distinct += distinct_automata(files)
    ck.stage("B1-product", families=families, full=full, automata=st.get("automata"),
             impl_states=st.get("states"), lists=st.get("lists"),
             product_pairs=sum(r.distinct for r in results),
             product_transitions=sum(r.generated for r in results), disagreements=nd,
             wall=round(max([r.wall for r in results] or [0]), 1))
    if files:
        c = read_ndjson_line(files[0], min(7, count_lines(files[0])))
        ck.sample({"automaton": c["ctx"], "impl_states": len(c["states"]),
                   "bytes": c["bytes"][:8], "startU": c["startU"], "startA": c["startA"]})
    return st


def calls(ck, name, family, scale=1, shards=NCPU, timeout=3000, spec="TraceCalls",
          mks=("std", "lf", "ll"), an="both", flav="all", sub="calls"):
    """B2: record calls on the real code, validate every line against the oracle."""
    wd = workdir("calls_" + name)
    prefix = os.path.join(wd, "trace")
    st = run_harness([sub, "--family", family, "--out", prefix, "--shards", shards,
                      "--seed", seed(), "--scale", scale, "--mks", ",".join(mks), "--an", an,
                      "--flav", flav])
    jobs, files, nlines = [], [], []
    for i in range(shards):
        f = "%s.%d.ndjson" % (prefix, i)
        n = count_lines(f)
        if n == 0:
            continue
        files.append(f)
        nlines.append(n)
        jobs.append(dict(module=spec, cfg=os.path.join(SPEC, spec + ".cfg"),
                         name="calls_%s_%d" % (name, i), env={"TRACE": f},
                         workers=1, timeout=timeout, xmx="2g"))
    results = tlc_many(jobs, parallel=NCPU)
    nrej = 0
    for f, n, res in zip(files, nlines, results):
        ck.add_tlc(res)
        if res.distinct != n:
            raise ToolError("trace %s: %d lines but TLC consumed %d" % (f, n, res.distinct))
        for d in res.tagged("DRIFT"):
            if len(ck.drift) < 50:
                ev = read_ndjson_line(f, d["line"])
                ck.drift.append({"why": d["why"], "ctx": (ev.get("ctx") or read_ndjson_line(f, ev["c"])["ctx"]),
                                 "hay": ev.get("hay"), "s": ev.get("s"), "e": ev.get("e")})
        for r in res.tagged("REJECT"):
            nrej += 1
            if len(ck.violations) + len(ck.known_hits) > 200:
                continue
            ev = read_ndjson_line(f, r["line"])
            ctx = read_ndjson_line(f, ev["c"])["ctx"] if ev.get("ev") != "ctx" else ev["ctx"]
            call = ev["calls"][r["call"] - 1] if ev.get("ev") == "multi" and r.get("call") else None
            sig = "call:%s:%s:%s:%s" % (r["ev"], ctx["mk"], json.dumps(ctx["pats"]),
                                        json.dumps([ev.get("hay"), ev.get("s"), ev.get("e")]))
            ck.violation(
                "%s on %s (%s, ci=%s, pats=%s) hay=%s span=%s..%s: %s; observed %s"
                % (r["ev"], ctx["repr"], ctx["mk"], ctx["ci"], ctx["pats"], ev.get("hay"),
                   ev.get("s"), ev.get("e"), r["why"], json.dumps(call)[:300]),
                {"signature": sig, "kind": "call", "ctx": ctx, "event": {k: v for k, v in ev.items() if k != "calls"},
                 "call": call, "why": r["why"]})
    ck.traces += st.get("events", 0)
    ck.evaluations += st.get("events", 0)
    ck.distinct += distinct_calls(files)
    ck.stage("B2-calls", family=family, scale=scale, contexts=st.get("contexts"),
             calls=st.get("events"), lines=sum(nlines), rejected=nrej,
             wall=round(max([r.wall for r in results] or [0]), 1))
    if files and nlines[0] >= 2:
        ev = read_ndjson_line(files[0], 2)
        c = read_ndjson_line(files[0], 1)
        ck.sample({"ctx": c.get("ctx"), "hay": ev.get("hay"), "s": ev.get("s"), "e": ev.get("e"),
                   "calls": (ev.get("calls") or [])[:3]})
    return st


def events_trace(ck, name, sub, args, spec, cfg, what, shards=1, workers=NCPU, sig_fields=(),
                 distinct_drop=()):
    """Generic: harness subcommand writes <prefix>.<i>.ndjson, TLC spec validates
    every line (REJECT lines are violations, DRIFT lines are drift)."""
    wd = workdir(name)
    prefix = os.path.join(wd, "trace")
    st = run_harness([sub, "--out", prefix, "--shards", shards, "--seed", seed()] + list(args))
    jobs, files, nlines = [], [], []
    for i in range(shards):
        f = "%s.%d.ndjson" % (prefix, i)
        if not os.path.exists(f):
            continue
        n = count_lines(f)
        if n == 0:
            continue
        files.append(f)
        nlines.append(n)
        jobs.append(dict(module=spec, cfg=os.path.join(SPEC, cfg), name="%s_%d" % (name, i),
                         env={"TRACE": f}, workers=max(1, workers // max(1, shards)),
                         timeout=3000, xmx="4g"))
    results = tlc_many(jobs, parallel=NCPU)
    nrej = 0
    for f, n, res in zip(files, nlines, results):
        ck.add_tlc(res)
        if res.distinct != n:
            raise ToolError("trace %s: %d lines but TLC consumed %d" % (f, n, res.distinct))
        for d in res.tagged("DRIFT"):
            if len(ck.drift) < 50:
                ck.drift.append({"line": read_ndjson_line(f, d["line"]), "why": d["why"]})
        for r in res.tagged("REJECT"):
            nrej += 1
            if len(ck.violations) + len(ck.known_hits) > 200:
                continue
            ev = read_ndjson_line(f, r["line"]) if r["line"] else {}
            sig = "%s:%s" % (what, json.dumps([ev.get(k) for k in sig_fields]))
            ck.violation("%s: %s; recorded: %s" % (what, r["why"], json.dumps(ev)[:400]),
                         {"signature": sig, "kind": what, "event": ev, "why": r["why"]})
    ck.traces += st.get("events", 0)
    ck.evaluations += st.get("events", 0)
    ck.distinct += distinct_lines(files, distinct_drop)
    ck.stage("B2-" + what, harness=sub, args=[str(a) for a in args], events=st.get("events"),
             lines=sum(nlines), rejected=nrej, wall=round(max([r.wall for r in results] or [0]), 1))
    if files:
        ck.sample(read_ndjson_line(files[0], min(5, nlines[0])))
    return st


def generated_streams(ck, name, maxstream=3, faults=True, shards=NCPU):
    """B4: TLC enumerates every behaviour of ACStream within the bounds (GenStream.tla prints
    one REPLAY line per behaviour: read sizes, failing read, failing emission, and what the
    specification says happens); each is executed on the real code with a reader returning
    exactly those sizes, and the recorded run is validated by TraceStream incl. the expectation."""
    cfg = write_cfg("gen_" + name, spec="HSpec",
                    constants={"Sigma": "{97, 98}", "MaxPats": 2, "MaxPatLen": 2, "MaxStream": maxstream,
                               "CIs": "{FALSE}", "CapExtra": "{1, 2}", "MaxFaults": 1 if faults else 0},
                    invariants=["Emitted", "ChunkConcat", "MatchPrefix", "Complete", "Indices"])
    res = run_tlc("GenStream", cfg, "gen_" + name, workers=NCPU, timeout=1500, xmx="8g")
    ck.add_tlc(res)
    if res.violated:
        ck.violation("GenStream violates %s" % res.violated,
                     {"signature": "model:GenStream", "trace": res.out.splitlines()[-80:]})
        return
    rows = res.tagged("REPLAY")
    if not rows:
        raise ToolError("GenStream produced no behaviours")
    rows.sort(key=lambda r: json.dumps(r["pats"]))
    wd = workdir("stream_" + name)
    rf = os.path.join(wd, "replay.ndjson")
    with open(rf, "w") as f:
        for r in rows:
            f.write(json.dumps(r) + "\n")
    ck.stage("B4-generate", behaviours=len(rows), model_states=res.distinct, wall=round(res.wall, 1))
    ck.sample({"tlc_generated_behaviour": rows[len(rows) // 2]})
    return streams(ck, name, "replay", shards=shards, replay_file=rf, stage="B4-replay")


def streams(ck, name, family, scale=1, faults=False, maxstream=4, sizes="1,2,3", shards=NCPU,
            replay_file="", stage="B3-stream", work=False, long=False):
    """B3 for streams: every recorded run of the real stream search/replacement is
    replayed through ACStream's actions by TLC (TraceStream.tla)."""
    wd = os.path.join(WORK, "stream_" + name) if replay_file else workdir("stream_" + name)
    prefix = os.path.join(wd, "trace")
    if long:
        os.environ["ACVERIF_STREAM_LONG"] = "1"     # long patterns (8 KiB .. 32 KiB) on the default buffer
    if work:
        os.environ["ACVERIF_STREAM_WORK"] = "1"     # the transition counter of every run is recorded
    try:
        st = run_harness(["stream", "--family", family, "--out", prefix, "--shards", shards,
                          "--seed", seed(), "--scale", scale, "--faults", "true" if faults else "false",
                          "--maxstream", maxstream, "--sizes", sizes] +
                         (["--replay-file", replay_file] if replay_file else []))
    finally:
        os.environ.pop("ACVERIF_STREAM_WORK", None)
        os.environ.pop("ACVERIF_STREAM_LONG", None)
    # two trace specifications read every shard: TraceStreamContract decides (the observable
    # contract of C07/C08/C18), TraceStream replays the run through ACStream's actions; a run only
    # the latter cannot explain is reported as drift (the implementation left the model's shape)
    jobs, files, nlines = [], [], []
    for i in range(shards):
        f = "%s.%d.ndjson" % (prefix, i)
        n = count_lines(f)
        if n == 0:
            continue
        files.append(f)
        nlines.append(n)
        jobs.append(dict(module="TraceStreamContract", cfg=os.path.join(SPEC, "TraceStreamContract.cfg"),
                         name="streamc_%s_%d" % (name, i), env={"TRACE": f}, workers=2,
                         timeout=3000, xmx="2g"))
        jobs.append(dict(module="TraceStream", cfg=os.path.join(SPEC, "TraceStream.cfg"),
                         name="stream_%s_%d" % (name, i), env={"TRACE": f}, workers=2,
                         timeout=3000, xmx="2g"))
    allres = tlc_many(jobs, parallel=NCPU)
    cres, results = allres[0::2], allres[1::2]
    nrej = ndrift = 0

    def describe(f, r):
        ev = read_ndjson_line(f, r["line"])
        ctx = read_ndjson_line(f, ev["c"])["ctx"]
        sig = "stream:%s:%s" % (json.dumps(ctx["pats"]),
                                json.dumps([ev.get("stream"), ev.get("cap"), ev.get("script"),
                                            ev.get("rfail"), ev.get("wfail"), ev.get("mode"),
                                            ev.get("rkind"), ev.get("wkind"), ev.get("accept")]))
        msg = ("stream run on %s pats=%s ci=%s stream=%s cap=%s script=%s rfail=%s(kind %s) wfail=%s(kind %s) "
               "writer accepts %s mode=%s: %s"
               % (ctx["repr"], ctx["pats"], ctx["ci"], ev.get("stream") if len(ev.get("stream") or []) < 200 else "<%d bytes>" % len(ev["stream"]),
                  ev.get("cap"), ev.get("script"), ev.get("rfail"), ev.get("rkind"), ev.get("wfail"), ev.get("wkind"),
                  ev.get("accept") or "everything", ev.get("mode") or ev.get("ev"), r["why"]))
        return sig, msg, ctx, ev

    for f, n, cr, res in zip(files, nlines, cres, results):
        ck.add_tlc(cr)
        ck.add_tlc(res)
        for which, rr in (("contract", cr), ("ACStream", res)):
            if rr.violated:
                lines = rr.out.splitlines()
                idx = next((i for i, l in enumerate(lines) if l.startswith("Error:")), 0)
                ck.violation("replaying recorded stream runs of the real code (%s) violates %s" % (which, rr.violated),
                             {"signature": "stream-invariant:%s" % rr.violated, "kind": "stream-trace",
                              "file": f, "trace": lines[idx:idx + 100]})
        if cr.violated or res.violated:
            continue
        if len(cr.tagged("DONE")) != min(16, n) or len(res.tagged("DONE")) != min(16, n):
            raise ToolError("stream trace %s: not all stripes completed" % f)
        bad = set()
        for r in cr.tagged("REJECT"):
            nrej += 1
            bad.add(r["line"])
            if len(ck.violations) + len(ck.known_hits) > 100:
                continue
            sig, msg, ctx, ev = describe(f, r)
            ck.violation(msg, {"signature": sig, "kind": "stream-run", "ctx": ctx, "run": ev, "why": r["why"]})
        for r in res.tagged("REJECT"):
            if r["line"] in bad:
                continue
            ndrift += 1
            if len(ck.drift) < 50:
                sig, msg, ctx, ev = describe(f, r)
                ck.drift.append({"why": "observable contract holds, but ACStream cannot explain the run step by step: "
                                        + r["why"], "ctx": ctx,
                                 "run": {k: ev.get(k) for k in ("stream", "cap", "script", "rfail", "wfail", "mode", "accept")}})
    ck.traces += st.get("events", 0)
    ck.evaluations += st.get("events", 0)
    ck.distinct += distinct_lines(files, ("c",))
    ck.stage(stage, family=family, scale=scale, faults=faults, contexts=st.get("contexts"),
             runs=st.get("events"), rejected=nrej, step_drift=ndrift,
             replay_states=sum(r.distinct for r in results) + sum(r.distinct for r in cres),
             wall=round(max([r.wall for r in results] or [0]), 1))
    if files and nlines[0] >= 3:
        ck.sample(read_ndjson_line(files[0], 3))
    return st


def steps(ck, name, scale=1, mks=("std", "lf", "ll"), shards=NCPU):
    """B3 for the search loop: the steps hook H5 records for every non-overlapping search
    (transition offsets, prefilter answers) are checked by TLC (TraceSearch.tla): property-level
    rules on the events (REJECT) and a replay through ACSearch's actions (DRIFT if it cannot follow)."""
    wd = workdir("steps_" + name)
    prefix = os.path.join(wd, "trace")
    st = run_harness(["steps", "--out", prefix, "--shards", shards, "--seed", seed(), "--scale", scale,
                      "--mks", ",".join(mks)])
    jobs, files, nlines = [], [], []
    for i in range(shards):
        f = "%s.%d.ndjson" % (prefix, i)
        n = count_lines(f)
        if n == 0:
            continue
        files.append(f)
        nlines.append(n)
        jobs.append(dict(module="TraceSearch", cfg=os.path.join(SPEC, "TraceSearch.cfg"),
                         name="steps_%s_%d" % (name, i), env={"TRACE": f}, workers=2, timeout=3000, xmx="3g"))
    results = tlc_many(jobs, parallel=NCPU)
    nrej = ndrift = 0
    for f, n, res in zip(files, nlines, results):
        ck.add_tlc(res)
        if res.violated:
            lines = res.out.splitlines()
            idx = next((i for i, l in enumerate(lines) if l.startswith("Error:")), 0)
            ck.violation("replaying the recorded steps of real searches through ACSearch violates %s" % res.violated,
                         {"signature": "steps-invariant:%s" % res.violated, "kind": "steps-trace", "file": f,
                          "trace": lines[idx:idx + 100]})
            continue
        if len({d.get("stripe") for d in res.tagged("DONE")}) != min(16, n):
            raise ToolError("steps trace %s: not all stripes completed" % f)
        for r in res.tagged("REJECT"):
            nrej += 1
            if len(ck.violations) + len(ck.known_hits) > 100:
                continue
            ev = read_ndjson_line(f, r["line"])
            c = read_ndjson_line(f, ev["c"])
            ctx = c["ctx"]
            sig = "steps:%s:%s" % (json.dumps(ctx), json.dumps([ev["hay"], ev["s"], ev["e"], ev["an"], ev["early"]]))
            ck.violation("search on %s (%s, ci=%s, prefilter=%s, pats=%s) hay=%s span=%s..%s anchored=%s earliest=%s: %s"
                         % (ctx["repr"], ctx["mk"], ctx["ci"], c["pfi"].get("variant"), ctx["pats"], ev["hay"],
                            ev["s"], ev["e"], ev["an"], ev["early"], r["why"]),
                         {"signature": sig, "kind": "search-steps", "ctx": ctx, "run": ev, "why": r["why"]})
        for d in res.tagged("DRIFT"):
            ndrift += 1
            if len(ck.drift) < 50:
                ev = read_ndjson_line(f, d["line"])
                ck.drift.append({"why": d["why"], "ctx": read_ndjson_line(f, ev["c"])["ctx"],
                                 "run": {k: ev.get(k) for k in ("hay", "s", "e", "an", "early", "ops", "res")}})
    ck.traces += st.get("events", 0)
    ck.evaluations += st.get("events", 0)
    ck.distinct += distinct_lines(files, ("c",))
    ck.stage("B3-search-steps", scale=scale, contexts=st.get("contexts"), runs=st.get("events"),
             rejected=nrej, step_drift=ndrift, replay_states=sum(r.distinct for r in results),
             wall=round(max([r.wall for r in results] or [0]), 1))
    if files and nlines[0] >= 40:
        ck.sample(read_ndjson_line(files[0], 40))
    return st


def validate_call_files(ck, name, files, what):
    """TraceCalls over already written files (shared by guard / threads / ids)."""
    jobs, nlines, fs = [], [], []
    for i, f in enumerate(files):
        n = count_lines(f)
        if n == 0:
            continue
        fs.append(f)
        nlines.append(n)
        jobs.append(dict(module="TraceCalls", cfg=os.path.join(SPEC, "TraceCalls.cfg"),
                         name="%s_%d" % (name, i), env={"TRACE": f}, workers=2, timeout=3000, xmx="2g"))
    results = tlc_many(jobs, parallel=NCPU)
    nrej = 0
    for f, n, res in zip(fs, nlines, results):
        ck.add_tlc(res)
        if res.distinct != n:
            raise ToolError("trace %s: %d lines but TLC consumed %d" % (f, n, res.distinct))
        for r in res.tagged("REJECT"):
            nrej += 1
            if len(ck.violations) + len(ck.known_hits) > 100:
                continue
            ev = read_ndjson_line(f, r["line"])
            ctx = read_ndjson_line(f, ev["c"])["ctx"] if ev.get("ev") != "ctx" else ev["ctx"]
            call = ev["calls"][r["call"] - 1] if ev.get("ev") == "multi" and r.get("call") else None
            pats_s = json.dumps(ctx["pats"])
            sig = "%s:%s:%s:%s" % (what, r["ev"], ctx["mk"], pats_s[:200])
            ck.violation("%s: %s on %s (%s, pats=%s) hay=%s: %s; observed %s"
                         % (what, r["ev"], ctx["repr"], ctx["mk"], pats_s[:200], json.dumps(ev.get("hay"))[:200],
                            r["why"], json.dumps(call)[:300]),
                         {"signature": sig, "kind": what, "ctx": ctx if len(pats_s) < 5000 else {"mk": ctx["mk"]},
                          "event": {k: v for k, v in ev.items() if k != "calls"}, "call": call, "why": r["why"]})
    ck.distinct += distinct_calls(fs)
    ck.call_count = getattr(ck, "call_count", 0) + total_calls(fs)
    return nrej, results, fs


def guard(ck, name, scale=1, shards=8):
    """C15: a child process searches haystacks placed flush against PROT_NONE pages."""
    wd = workdir("guard_" + name)
    prefix = os.path.join(wd, "trace")
    r = subprocess.run([BIN, "guard", "--out", prefix, "--shards", str(shards), "--seed", str(seed()),
                        "--scale", str(scale)], stdout=subprocess.PIPE, stderr=subprocess.PIPE, text=True)
    cur = {}
    try:
        with open(prefix + ".current") as f:
            cur = json.load(f)
    except Exception:
        pass
    if r.returncode != 0:
        ck.violation("the child process searching guard-page-backed haystacks died with status %d while running: %s"
                     % (r.returncode, json.dumps(cur)[:600]),
                     {"signature": "guard:%s" % json.dumps(cur)[:300], "kind": "guard-crash",
                      "status": r.returncode, "case": cur})
        ck.stage("guard-pages", status=r.returncode, case=cur)
        ck.evaluations += 1
        return
    if not cur.get("finished"):
        raise ToolError("guard child did not finish")
    files = ["%s.%d.ndjson" % (prefix, i) for i in range(shards)]
    nrej, results, fs = validate_call_files(ck, "guard_" + name, files, "guard")
    ck.traces += cur["cases"]
    ck.evaluations += total_calls(fs)
    ck.stage("guard-pages", cases=cur["cases"], calls=total_calls(fs), rejected=nrej, status=0,
             wall=round(max([x.wall for x in results] or [0]), 1))
    if fs:
        ev = read_ndjson_line(fs[0], 2)
        ck.sample({"placement": "flush against PROT_NONE page (right and left)", "len": len(ev.get("hay", [])),
                   "hay": ev.get("hay", [])[:24], "calls": (ev.get("calls") or [])[:2]})


def harness_calls(ck, name, sub, scale=1, shards=8, what=None):
    """generic: harness subcommand writing TraceCalls-format files"""
    wd = workdir(name)
    prefix = os.path.join(wd, "trace")
    st = run_harness([sub, "--out", prefix, "--shards", shards, "--seed", seed(), "--scale", scale])
    files = ["%s.%d.ndjson" % (prefix, i) for i in range(shards)]
    nrej, results, fs = validate_call_files(ck, name, files, what or sub)
    ck.traces += st.get("events", 0)
    ck.evaluations += st.get("events", 0)
    ck.stage("B2-" + (what or sub), contexts=st.get("contexts"), events=st.get("events"), rejected=nrej,
             wall=round(max([x.wall for x in results] or [0]), 1))
    if fs and count_lines(fs[0]) >= 2:
        ev = read_ndjson_line(fs[0], 2)
        ck.sample({"hay": (ev.get("hay") or [])[:32], "thread": ev.get("thread"),
                   "calls": [str(c)[:200] for c in (ev.get("calls") or [])[:2]]})
    return st
