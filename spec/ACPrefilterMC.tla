--------------------------- MODULE ACPrefilterMC ---------------------------
(* Every admissible prefilter answers every probe soundly. *)
EXTENDS ACPrefilter, TLC

CONSTANTS Sigma, MaxPats, MaxPatLen, MaxHay, Kinds, CIs
VARIABLES cfg, pc
vars == <<cfg, pc>>
SeqsUpTo(S, n) == UNION {[1..k -> S] : k \in 0..n}
NonEmptySeqs(S, n) == UNION {[1..k -> S] : k \in 1..n}

Init ==
    /\ \E pats \in NonEmptySeqs(NonEmptySeqs(Sigma, MaxPatLen), MaxPats), kind \in Kinds, ci \in CIs :
         cfg = [pats |-> pats, kind |-> kind, ci |-> ci, hay |-> <<>>, a |-> 0, b |-> 0,
                variant |-> "none", set |-> {}]
    /\ pc = "new"

Probe ==
    /\ pc = "new"
    /\ \E hay \in SeqsUpTo(Sigma, MaxHay) : \E b \in 0..Len(hay) : \E a \in 0..b :
       \E v \in {"start", "rare", "memmem", "packed"} :
       \E S \in SUBSET Sigma :
          /\ CASE v = "start" -> AdmStart(S, cfg.pats, cfg.ci)
               [] v = "rare" -> AdmRare(S, cfg.pats, cfg.ci)
               [] v = "memmem" -> S = {} /\ AdmMemmem(cfg.pats, cfg.ci)
               [] v = "packed" -> S = {} /\ AdmPacked(cfg.pats, cfg.kind, cfg.ci)
          /\ cfg' = [cfg EXCEPT !.hay = hay, !.a = a, !.b = b, !.variant = v, !.set = S]
    /\ pc' = "probed"
Next == Probe
Spec == Init /\ [][Next]_vars

Cand ==
    CASE cfg.variant = "start" -> CandStart(cfg.set, cfg.hay, cfg.a, cfg.b)
      [] cfg.variant = "rare" -> CandRare(cfg.set, cfg.pats, cfg.ci, cfg.hay, cfg.a, cfg.b)
      [] cfg.variant = "memmem" -> CandMemmem(cfg.pats, cfg.hay, cfg.a, cfg.b)
      [] cfg.variant = "packed" -> CandPacked(cfg.pats, cfg.kind, cfg.hay, cfg.a, cfg.b)

AdmissibleIsSound ==
    pc = "probed" => Sound(cfg.pats, cfg.kind, cfg.ci, cfg.hay, cfg.a, cfg.b, Cand)

=============================================================================
