------------------------------ MODULE ACPacked ------------------------------
(***************************************************************************)
(* The packed searchers of src/packed: Rabin-Karp (rabinkarp.rs) and Teddy *)
(* (teddy/generic.rs, builder.rs, api.rs Searcher::find_in), with a        *)
(* symbolic vector width.                                                  *)
(*                                                                         *)
(* Teddy(V, B, N): V = bytes examined per window (16/32 for slim, 16 for   *)
(* the fat variant which loads half a vector), B = buckets (8 slim, 16     *)
(* fat), N = fingerprint length = min(4, shortest pattern).  A byte is     *)
(* (hi, lo) nybbles; here Hi(b) = b \div NybbleBase, Lo(b) = b % NybbleBase*)
(* over a tiny nybble domain, which keeps every collision class of the     *)
(* real 16 x 16 layout (same lo/different hi, same hi/different lo).       *)
(*                                                                         *)
(* Steps (one per window, as in Slim<V,N>::find / Fat<V,N>::find):         *)
(*   Main   while cur <= end - V: candidate(cur) with the carry of the     *)
(*          previous window (all-ones before the first), verify, cur += V  *)
(*   Final  if cur < end: the overlapping window at end - V with the carry *)
(*          reset to all-ones                                              *)
(* verify walks candidate bits in (position, bucket) order and the         *)
(* patterns of a bucket in semantic order.  Haystacks shorter than         *)
(* V + N - 1 go to Rabin-Karp (api.rs); the AVX2 slim searcher uses the    *)
(* half-width searcher below its own minimum (builder.rs).                 *)
(***************************************************************************)
EXTENDS ACBase, TLC

CONSTANTS Sigma,        \* bytes of the model
          NybbleBase,   \* Hi(b) = b \div NybbleBase, Lo(b) = b % NybbleBase
          MaxPats, MaxPatLen, MaxHay,
          Vs,           \* vector widths explored, e.g. {2, 4}; a searcher with width v
                        \* falls back to width v \div 2 when that is also in Vs
          Bs,           \* bucket counts explored
          Kinds         \* subset of {"lf", "ll"}

VARIABLES cfg,     \* [pats, kind, hay, s, e, v, b, algo]
          pc,      \* "new" | "main" | "final" | "done"
          cur,     \* window position
          carry,   \* prev0..2: -1 = all-ones (reset); otherwise the offset just past the
                   \* bytes whose per-position results the carry vectors hold
          res,     \* result
          loads    \* history: the last vector load <<from, to>> (hidden by VIEW)
vars == <<cfg, pc, cur, carry, res, loads>>
View == <<cfg, pc, cur, carry, res>>

SeqsUpTo(S, n) == UNION {[1..k -> S] : k \in 0..n}
NonEmptySeqs(S, n) == UNION {[1..k -> S] : k \in 1..n}
Hi(x) == x \div NybbleBase
Lo(x) == x % NybbleBase
Min2(a, b) == IF a <= b THEN a ELSE b

P == cfg.pats
K == cfg.kind
H == cfg.hay
MinLen(pats) == MinOf({Len(pats[k]) : k \in 1..Len(pats)})
N == Min2(4, MinLen(P))                 \* Teddy::mask_len

(* Patterns::set_match_kind: ids in semantic order *)
RECURSIVE OrderLL(_, _)
OrderLL(pats, ids) ==
    IF ids = {} THEN <<>>
    ELSE LET k == LongestFirst(pats, ids) IN <<k>> \o OrderLL(pats, ids \ {k})
Order == IF K = "lf" THEN [k \in 1..Len(P) |-> k] ELSE OrderLL(P, 1..Len(P))

(* Teddy::new: patterns with equal low-nybble fingerprints share a bucket;  *)
(* a new fingerprint goes to bucket (B-1) - (id mod B), id 0-based          *)
LoNybs(p) == [j \in 1..N |-> Lo(p[j])]
RECURSIVE Assign(_, _, _)
Assign(i, map, bk) ==      \* map: fingerprint -> bucket (as set of pairs); bk: id -> bucket
    IF i > Len(Order) THEN bk
    ELSE LET id == Order[i]
             fp == LoNybs(P[id])
             known == {m \in map : m[1] = fp} IN
         IF known # {}
         THEN Assign(i + 1, map, bk @@ (id :> (CHOOSE m \in known : TRUE)[2]))
         ELSE LET b == (cfg.b - 1) - ((id - 1) % cfg.b) IN
              Assign(i + 1, map \cup {<<fp, b>>}, bk @@ (id :> b))
BucketOf == Assign(1, {}, <<>>)
(* the ids of a bucket, in the order they were pushed *)
BucketSeq(b) == SelectSeq(Order, LAMBDA id : BucketOf[id] = b)

(* SlimMaskBuilder / FatMaskBuilder: per position k, the nybbles of bucket b *)
MaskHit(b, k, x) ==
    /\ \E id \in 1..Len(P) : BucketOf[id] = b /\ Lo(P[id][k + 1]) = Lo(x)
    /\ \E id \in 1..Len(P) : BucketOf[id] = b /\ Hi(P[id][k + 1]) = Hi(x)

(* candidate(cur): bit (position p, bucket b) of the AND of the shifted      *)
(* per-position results; bytes before `cur` come from the carry, which is    *)
(* all-ones (= "matches") when it was reset                                  *)
Candidate(c, cp, p, b) ==
    \A k \in 0..(N - 1) :
        LET q == p + k IN
        IF q >= c THEN MaskHit(b, k, H[q + 1])
        ELSE IF cp = -1 THEN TRUE
        \* lane (V-1) - (c-1-q) of the carry: the byte (c-q) before the carry's end
        ELSE MaskHit(b, k, H[(cp - (c - q)) + 1])

(* verify64 / verify_bucket: first hit in (position, bucket, bucket order)   *)
VerifyBucket(p, b) ==
    LET ids == BucketSeq(b)
        ok == {i \in 1..Len(ids) : OccursAt(P[ids[i]], H, p, cfg.e, FALSE)} IN
    IF ok = {} THEN None ELSE LET id == ids[MinOf(ok)] IN <<id, p, p + Len(P[id])>>
RECURSIVE VerifyFrom(_, _, _, _, _)
VerifyFrom(c, real, p, b, hiP) ==
    IF p > hiP THEN None
    ELSE IF b >= cfg.b THEN VerifyFrom(c, real, p + 1, 0, hiP)
    ELSE IF Candidate(c, real, p, b) /\ VerifyBucket(p, b) # None THEN VerifyBucket(p, b)
    ELSE VerifyFrom(c, real, p, b + 1, hiP)
(* one window at c: lanes 0..V-1 stand for positions c-(N-1) .. c-(N-1)+V-1 *)
Window(c, real) == VerifyFrom(c, real, c - (N - 1), 0, c - (N - 1) + cfg.v - 1)

(* ------------------------------ Rabin-Karp ------------------------------ *)
(* hash over the shortest pattern length; equal windows have equal hashes,   *)
(* unequal windows MAY collide (any collision relation is allowed: it only   *)
(* adds verifications).  Per bucket, patterns are verified in semantic order.*)
RECURSIVE RKFrom(_)
RKFrom(at) ==
    IF at + MinLen(P) > cfg.e THEN None
    ELSE LET ok == {i \in 1..Len(Order) : OccursAt(P[Order[i]], H, at, cfg.e, FALSE)} IN
         IF ok # {} THEN LET id == Order[MinOf(ok)] IN <<id, at, at + Len(P[id])>>
         ELSE RKFrom(at + 1)
RabinKarp == RKFrom(cfg.s)

(* -------------------------------- machine -------------------------------- *)
MinimumLen(v) == v + (N - 1)
SpanLen == cfg.e - cfg.s

Init ==
    /\ \E pats \in NonEmptySeqs(NonEmptySeqs(Sigma, MaxPatLen), MaxPats), kind \in Kinds :
         cfg = [pats |-> pats, kind |-> kind, hay |-> <<>>, s |-> 0, e |-> 0, v |-> 0, b |-> 0,
                algo |-> "none"]
    /\ pc = "new" /\ cur = 0 /\ carry = -1 /\ res = None /\ loads = <<0, 0>>

(* Searcher::find_in *)
New ==
    /\ pc = "new"
    /\ \E hay \in SeqsUpTo(Sigma, MaxHay), v0 \in Vs, b \in Bs, rk \in BOOLEAN :
         \E e \in 0..Len(hay) : \E s \in 0..e :
            LET n == Min2(4, MinLen(cfg.pats))
                len == e - s
                \* the 256-bit slim searcher defers to the 128-bit one on short inputs
                v == IF len < v0 + n - 1 /\ (v0 \div 2) \in Vs THEN v0 \div 2 ELSE v0
                teddy == ~rk /\ len >= v + n - 1 IN
            /\ cfg' = [cfg EXCEPT !.hay = hay, !.s = s, !.e = e, !.v = v, !.b = b,
                                  !.algo = IF teddy THEN "teddy" ELSE "rk"]
            /\ IF teddy
               THEN pc' = "main" /\ cur' = s + (n - 1) /\ res' = None
               ELSE pc' = "done" /\ cur' = s /\ res' = None
    /\ carry' = -1 /\ loads' = <<0, 0>>

(* the Rabin-Karp answer is computed in the state where cfg is set *)
RKDone ==
    /\ pc = "done" /\ cfg.algo = "rk" /\ res = None /\ loads = <<0, 0>>
    /\ res' = RabinKarp /\ loads' = <<-1, -1>>
    /\ UNCHANGED <<cfg, pc, cur, carry>>

Main ==
    /\ pc = "main"
    /\ IF cur <= cfg.e - cfg.v
       THEN /\ loads' = <<cur, cur + cfg.v>>
            /\ LET m == Window(cur, carry) IN
               IF m # None THEN res' = m /\ pc' = "done" /\ UNCHANGED <<cur, carry>>
               ELSE cur' = cur + cfg.v /\ carry' = cur + cfg.v /\ UNCHANGED <<res, pc>>
       ELSE pc' = "final" /\ UNCHANGED <<cur, carry, res, loads>>
    /\ UNCHANGED cfg

Final ==
    /\ pc = "final"
    /\ IF cur < cfg.e
       THEN /\ cur' = cfg.e - cfg.v /\ carry' = -1      \* prev0..2 = splat(0xFF)
            /\ loads' = <<cfg.e - cfg.v, cfg.e>>
            /\ res' = Window(cfg.e - cfg.v, -1)
       ELSE UNCHANGED <<cur, carry, res, loads>>
    /\ pc' = "done"
    /\ UNCHANGED cfg

Next == New \/ RKDone \/ Main \/ Final
Spec == Init /\ [][Next]_vars

(* ------------------------------ properties ------------------------------ *)
Oracle == Leftmost(P, K, H, cfg.s, cfg.e, FALSE, FALSE)

(* C06 *)
PackedCorrect ==
    (pc = "done" /\ (cfg.algo = "teddy" \/ loads = <<-1, -1>>)) => res = Oracle

(* C15: every vector load lies inside the searched slice, every reported    *)
(* match inside the span                                                    *)
LoadInBounds ==
    (loads # <<0, 0>> /\ loads # <<-1, -1>>) => loads[1] >= cfg.s /\ loads[2] <= cfg.e
MatchInSpan == res # None => res[2] >= cfg.s /\ res[3] <= cfg.e

(* the windows never skip a start position: when the main loop is left,     *)
(* everything before cur - (N-1) has been examined                          *)
(* whenever the carry is used it describes the bytes right before `cur`     *)
CarryAdjacent == (pc = "main" /\ carry # -1) => carry = cur

Coverage == pc = "final" => cur > cfg.e - cfg.v /\ cur - (N - 1) <= cfg.e

=============================================================================
