SPECIFICATION TSpec
CONSTANTS
  Sigma = {1}
  MaxPats = 1
  MaxPatLen = 1
  MaxHay = 1
  Kinds = {"std"}
  CIs = {FALSE}
  Anchs = {FALSE}
  Earlies = {FALSE}
  Pres = {FALSE}
INVARIANTS TWork TInSpan
CHECK_DEADLOCK FALSE
