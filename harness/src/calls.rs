// B2: call-level traces. Run public API calls on the real searchers and
// record (context, call, arguments, result). TLC (spec/TraceCalls.tla)
// evaluates the declarative oracle for every recorded line.
use crate::common::*;
use crate::gen;
use crate::with_aut;
use aho_corasick::{
    automaton::{Automaton, OverlappingState},
    AhoCorasick, Input, Match, MatchError,
};
use rand::{rngs::StdRng, Rng};
use serde::Serialize;
use serde_json::{json, Value};

pub enum Searcher {
    Top(AhoCorasick),
    Low(Aut),
}

pub fn m2v(m: &Match) -> Value {
    json!([m.pattern().as_usize(), m.start(), m.end()])
}
pub fn om2v(m: &Option<Match>) -> Value {
    match m {
        None => json!([]),
        Some(m) => m2v(m),
    }
}

fn mk_input<'h>(hay: &'h [u8], s: usize, e: usize, an: bool, early: bool) -> Input<'h> {
    Input::new(hay).span(s..e).anchored(anch(an)).earliest(early)
}

impl Searcher {
    pub fn build(c: &Ctx) -> Result<Searcher, String> {
        if c.repr.starts_with("top") {
            build_top(c).map(Searcher::Top)
        } else {
            build_low(c).map(Searcher::Low)
        }
    }
    pub fn api(&self) -> &'static str {
        match self {
            Searcher::Top(_) => "top",
            Searcher::Low(_) => "low",
        }
    }
    pub fn try_find(&self, i: Input<'_>) -> Result<Option<Match>, MatchError> {
        match self {
            Searcher::Top(ac) => ac.try_find(i),
            Searcher::Low(a) => with_aut!(a, a => a.try_find(&i)),
        }
    }
    /// more items than any correct iterator can yield on this input: a
    /// runaway iterator is cut off there (and recorded as "runaway")
    pub fn item_limit(&self, i: &Input<'_>) -> usize {
        let n = match self {
            Searcher::Top(ac) => ac.patterns_len(),
            Searcher::Low(a) => with_aut!(a, a => a.patterns_len()),
        };
        (i.haystack().len() + 2) * (n + 1) + 8
    }
    pub fn try_iter(&self, i: Input<'_>) -> Result<Vec<Match>, MatchError> {
        let lim = self.item_limit(&i);
        match self {
            Searcher::Top(ac) => ac.try_find_iter(i).map(|it| it.take(lim + 1).collect()),
            Searcher::Low(a) => {
                with_aut!(a, a => a.try_find_iter(i).map(|it| it.take(lim + 1).collect()))
            }
        }
    }
    pub fn try_overlapping_iter(&self, i: Input<'_>) -> Result<Vec<Match>, MatchError> {
        let lim = self.item_limit(&i);
        match self {
            Searcher::Top(ac) => {
                ac.try_find_overlapping_iter(i).map(|it| it.take(lim + 1).collect())
            }
            Searcher::Low(a) => {
                with_aut!(a, a => a.try_find_overlapping_iter(i).map(|it| it.take(lim + 1).collect()))
            }
        }
    }
    pub fn try_overlapping_step(
        &self,
        i: &Input<'_>,
        st: &mut OverlappingState,
    ) -> Result<(), MatchError> {
        match self {
            Searcher::Top(ac) => ac.try_find_overlapping(i.clone(), st),
            Searcher::Low(a) => with_aut!(a, a => a.try_find_overlapping(i, st)),
        }
    }
    pub fn replace_bytes(
        &self,
        hay: &[u8],
        rep: &[Vec<u8>],
        stop: usize,
    ) -> Result<Vec<u8>, MatchError> {
        let mut dst = vec![];
        let mut n = 0usize;
        let cap = (hay.len() + 2) * 2 + 8;
        let f = |m: &Match, _b: &[u8], dst: &mut Vec<u8>| {
            dst.extend(&rep[m.pattern().as_usize()]);
            n += 1;
            if n > cap {
                panic!("runaway: the replacement closure was called more often than there are offsets");
            }
            n != stop
        };
        match self {
            Searcher::Top(ac) => ac.try_replace_all_with_bytes(hay, &mut dst, f)?,
            Searcher::Low(a) => {
                with_aut!(a, a => a.try_replace_all_with_bytes(hay, &mut dst, f))?
            }
        }
        Ok(dst)
    }
    pub fn replace_str(
        &self,
        hay: &str,
        rep: &[String],
        stop: usize,
    ) -> Result<String, MatchError> {
        let mut dst = String::new();
        let mut n = 0usize;
        let cap = (hay.len() + 2) * 2 + 8;
        let f = |m: &Match, _b: &str, dst: &mut String| {
            dst.push_str(&rep[m.pattern().as_usize()]);
            n += 1;
            if n > cap {
                panic!("runaway: the replacement closure was called more often than there are offsets");
            }
            n != stop
        };
        match self {
            Searcher::Top(ac) => ac.try_replace_all_with(hay, &mut dst, f)?,
            Searcher::Low(a) => with_aut!(a, a => a.try_replace_all_with(hay, &mut dst, f))?,
        }
        Ok(dst)
    }
    pub fn replace_all_bytes(&self, hay: &[u8], rep: &[Vec<u8>]) -> Result<Vec<u8>, MatchError> {
        match self {
            Searcher::Top(ac) => ac.try_replace_all_bytes(hay, rep),
            Searcher::Low(a) => with_aut!(a, a => a.try_replace_all_bytes(hay, rep)),
        }
    }
    pub fn replace_all_str(&self, hay: &str, rep: &[String]) -> Result<String, MatchError> {
        match self {
            Searcher::Top(ac) => ac.try_replace_all(hay, rep),
            Searcher::Low(a) => with_aut!(a, a => a.try_replace_all(hay, rep)),
        }
    }
    pub fn prefilter_debug(&self) -> String {
        match self {
            Searcher::Top(_) => String::new(),
            Searcher::Low(a) => with_aut!(a, a => match a.prefilter() {
                None => "none".to_string(),
                Some(p) => format!("{:?}", p),
            }),
        }
    }
}

/// result of a fallible call run under catch_unwind
fn outcome<T: Serialize>(r: Result<Result<T, MatchError>, String>) -> (String, Value) {
    match r {
        Ok(Ok(v)) => ("ok".to_string(), serde_json::to_value(v).unwrap()),
        Ok(Err(e)) => ("err".to_string(), json!(e.to_string())),
        Err(p) => ("panic".to_string(), json!(p)),
    }
}

pub struct Rec<'a> {
    pub out: &'a mut Out,
    pub shard: usize,
    pub ctx_line: usize,
    pub n_events: usize,
    /// calls made on the same (haystack, span), flushed as one "multi" line
    pending: Vec<Value>,
}

impl<'a> Rec<'a> {
    /// emit the context line for a shard; returns false if the build failed
    pub fn begin(out: &'a mut Out, shard: usize, c: &Ctx, s: &Result<Searcher, String>) -> Rec<'a> {
        let (built, err, kind, pf) = match s {
            Ok(Searcher::Top(ac)) => (true, String::new(), kind_name(ac.kind()), String::new()),
            Ok(l @ Searcher::Low(_)) => (true, String::new(), c.repr, l.prefilter_debug()),
            Err(e) => (false, e.clone(), "", String::new()),
        };
        set_case(&serde_json::to_string(c).unwrap_or_default());
        let line = out.put(
            shard,
            &json!({"ev":"ctx","ctx":c,"built":built,"err":err,"kind":kind,"pf":pf,
                    "pfi": match s { Ok(s) => prefilter_info(s), Err(_) => json!({"variant":"none","bytes":[]}) }}),
        );
        Rec { out, shard, ctx_line: line, n_events: 0, pending: vec![] }
    }
    /// record one call; it is written with the next `flush`
    pub fn put(&mut self, v: Value) {
        self.pending.push(v);
        self.n_events += 1;
    }
    /// like `flush`, for calls whose validation needs only the span (work
    /// bounds on long haystacks): the haystack is not written
    pub fn flush_nohay(&mut self, haylen: usize, sp: (usize, usize)) {
        if self.pending.is_empty() {
            return;
        }
        let calls = std::mem::take(&mut self.pending);
        self.out.put(
            self.shard,
            &json!({"ev":"multi","c":self.ctx_line,"hay":[],"haylen":haylen,"s":sp.0,"e":sp.1,"calls":calls}),
        );
    }
    /// write all pending calls as one line sharing haystack and span
    pub fn flush(&mut self, hay: &[u8], sp: (usize, usize)) {
        if self.pending.is_empty() {
            return;
        }
        let calls = std::mem::take(&mut self.pending);
        self.out.put(
            self.shard,
            &json!({"ev":"multi","c":self.ctx_line,"hay":hay,"s":sp.0,"e":sp.1,"calls":calls}),
        );
    }
}

pub fn ev_find(r: &mut Rec, s: &Searcher, hay: &[u8], sp: (usize, usize), an: bool, early: bool) {
    let (out, res) = outcome(guarded(|| {
        s.try_find(mk_input(hay, sp.0, sp.1, an, early)).map(|m| om2v(&m))
    }));
    r.put(json!(["find", an, early, out, res, 0]));
}

/// the same search with the span given through Input::range / set_range / set_start+set_end
/// in every RangeBounds form that denotes s..e (C10)
pub fn ev_find_range_forms(r: &mut Rec, s: &Searcher, hay: &[u8], sp: (usize, usize), an: bool) {
    if sp.0 > sp.1 {
        return;
    }
    let (a, b) = sp;
    let mut forms: Vec<(&'static str, Input)> = vec![
        ("range a..b", Input::new(hay).range(a..b)),
        ("set_range", { let mut i = Input::new(hay); i.set_range(a..b); i }),
        ("set_end+set_start", { let mut i = Input::new(hay); i.set_end(b); i.set_start(a); i }),
        ("set_span", { let mut i = Input::new(hay); i.set_span(aho_corasick::Span { start: a, end: b }); i }),
    ];
    if b > a {
        forms.push(("range a..=b-1", Input::new(hay).range(a..=(b - 1))));
    }
    if b == hay.len() {
        forms.push(("range a..", Input::new(hay).range(a..)));
    }
    if a == 0 {
        forms.push(("range ..b", Input::new(hay).range(..b)));
        if b > 0 {
            forms.push(("range ..=b-1", Input::new(hay).range(..=(b - 1))));
        }
    }
    for (name, input) in forms {
        let input = input.anchored(anch(an));
        let (out, res) = outcome(guarded(|| s.try_find(input).map(|m| om2v(&m))));
        r.put(json!(["find", an, false, out, res, name]));
    }
}

pub fn ev_is_match(r: &mut Rec, s: &Searcher, hay: &[u8], sp: (usize, usize), an: bool) {
    if let Searcher::Top(ac) = s {
        let g = guarded(|| ac.is_match(mk_input(hay, sp.0, sp.1, an, false)));
        let (out, res) = match g {
            Ok(b) => ("ok", json!(b)),
            Err(p) => ("panic", json!(p)),
        };
        r.put(json!(["is_match", an, false, out, res, 0]));
    }
}

pub fn ev_iter(r: &mut Rec, s: &Searcher, hay: &[u8], sp: (usize, usize), an: bool) {
    let lim = s.item_limit(&mk_input(hay, sp.0, sp.1, an, false));
    let (mut out, res) = outcome(guarded(|| {
        s.try_iter(mk_input(hay, sp.0, sp.1, an, false))
            .map(|v| v.iter().map(m2v).collect::<Vec<_>>())
    }));
    if out == "ok" && res.as_array().map_or(0, |a| a.len()) > lim {
        out = "runaway".to_string();
    }
    r.put(json!(["iter", an, false, out, res, 0]));
}

pub fn ev_overlap_iter(r: &mut Rec, s: &Searcher, hay: &[u8], sp: (usize, usize)) {
    let lim = s.item_limit(&mk_input(hay, sp.0, sp.1, false, false));
    let (mut out, res) = outcome(guarded(|| {
        s.try_overlapping_iter(mk_input(hay, sp.0, sp.1, false, false))
            .map(|v| v.iter().map(m2v).collect::<Vec<_>>())
    }));
    if out == "ok" && res.as_array().map_or(0, |a| a.len()) > lim {
        out = "runaway".to_string();
    }
    r.put(json!(["overlap_iter", false, false, out, res, 0]));
}

/// stepwise overlapping search on one OverlappingState until None, then
/// `tail` more calls (which must all show None)
pub fn ev_overlap_step(
    r: &mut Rec,
    s: &Searcher,
    hay: &[u8],
    sp: (usize, usize),
    an: bool,
    tail: usize,
) {
    let g = guarded(|| {
        let input = mk_input(hay, sp.0, sp.1, an, false);
        let mut st = OverlappingState::start();
        let mut res = vec![];
        let mut tailv = vec![];
        let limit = (hay.len() + 2) * 64 + 16;
        loop {
            if let Err(e) = s.try_overlapping_step(&input, &mut st) {
                return Err(e);
            }
            match st.get_match() {
                Some(m) if tailv.is_empty() => res.push(m2v(&m)),
                other => tailv.push(om2v(&other)),
            }
            if tailv.len() > tail || res.len() > limit {
                break;
            }
        }
        Ok((res, tailv))
    });
    let (out, res) = outcome(g);
    r.put(json!(["overlap_step", an, false, out, res, 0]));
}

pub fn ev_replace_bytes(r: &mut Rec, s: &Searcher, hay: &[u8], rep: &[Vec<u8>], stop: usize) {
    let (out, res) = outcome(guarded(|| s.replace_bytes(hay, rep, stop)));
    r.put(json!(["replace", false, false, out, res,
                 {"var":"with_bytes","R":rep,"stop":stop,"str":false}]));
}

/// the infallible replace wrappers of the top-level searcher
pub fn ev_replace_infallible(r: &mut Rec, s: &Searcher, hay: &[u8], rep: &[Vec<u8>]) {
    let ac = match s { Searcher::Top(ac) => ac, _ => return };
    let g = guarded(|| ac.replace_all_bytes(hay, rep));
    let (o, v) = match g { Ok(v) => ("ok", json!(v)), Err(p) => ("panic", json!(p)) };
    r.put(json!(["replace", false, false, o, v, {"var":"infallible_all_bytes","R":rep,"stop":0,"str":false}]));
    let g = guarded(|| { let mut dst = vec![]; ac.replace_all_with_bytes(hay, &mut dst, |m, _, d| { d.extend(&rep[m.pattern().as_usize()]); true }); dst });
    let (o, v) = match g { Ok(v) => ("ok", json!(v)), Err(p) => ("panic", json!(p)) };
    r.put(json!(["replace", false, false, o, v, {"var":"infallible_with_bytes","R":rep,"stop":0,"str":false}]));
    if let (Ok(hs), true) = (std::str::from_utf8(hay), rep.iter().all(|x| std::str::from_utf8(x).is_ok())) {
        let reps: Vec<String> = rep.iter().map(|x| String::from_utf8(x.clone()).unwrap()).collect();
        let g = guarded(|| ac.replace_all(hs, &reps));
        let (o, v) = match g { Ok(v) => ("ok", json!(v.as_bytes())), Err(p) => ("panic", json!(p)) };
        r.put(json!(["replace", false, false, o, v, {"var":"infallible_all_str","R":rep,"stop":0,"str":true}]));
        let g = guarded(|| { let mut dst = String::new(); ac.replace_all_with(hs, &mut dst, |m, _, d| { d.push_str(&reps[m.pattern().as_usize()]); true }); dst });
        let (o, v) = match g { Ok(v) => ("ok", json!(v.as_bytes())), Err(p) => ("panic", json!(p)) };
        r.put(json!(["replace", false, false, o, v, {"var":"infallible_with_str","R":rep,"stop":0,"str":true}]));
    }
}

pub fn ev_replace_all_bytes(r: &mut Rec, s: &Searcher, hay: &[u8], rep: &[Vec<u8>]) {
    let (out, res) = outcome(guarded(|| s.replace_all_bytes(hay, rep)));
    r.put(json!(["replace", false, false, out, res,
                 {"var":"all_bytes","R":rep,"stop":0,"str":false}]));
}

pub fn ev_replace_str(r: &mut Rec, s: &Searcher, hay: &str, rep: &[String], stop: usize, all: bool) {
    let g = guarded(|| {
        if all { s.replace_all_str(hay, rep) } else { s.replace_str(hay, rep, stop) }
    });
    let (out, res) = match g {
        Ok(Ok(v)) => ("ok".to_string(), json!(v.as_bytes())),
        Ok(Err(e)) => ("err".to_string(), json!(e.to_string())),
        Err(p) => ("panic".to_string(), json!(p)),
    };
    let repb: Vec<&[u8]> = rep.iter().map(|x| x.as_bytes()).collect();
    r.put(json!(["replace", false, false, out, res,
                 {"var":if all {"all_str"} else {"with_str"},"R":repb,
                  "stop":if all {0} else {stop},"str":true}]));
}

/// The search routine from the `Automaton` trait documentation, verbatim
/// (unanchored, no prefilter, correct for all match kinds).
fn doc_recipe<A: Automaton>(aut: &A, haystack: &[u8]) -> Result<Option<Match>, MatchError> {
    use aho_corasick::{Anchored, MatchKind};
    let mut sid = aut.start_state(Anchored::No)?;
    let mut at = 0;
    let mut mat = None;
    let get_match = |sid, at: usize| {
        let pid = aut.match_pattern(sid, 0);
        let len = aut.pattern_len(pid);
        Match::new(pid, (at - len)..at)
    };
    if aut.is_match(sid) {
        mat = Some(get_match(sid, at));
        if matches!(aut.match_kind(), MatchKind::Standard) {
            return Ok(mat);
        }
    }
    while at < haystack.len() {
        sid = aut.next_state(Anchored::No, sid, haystack[at]);
        if aut.is_special(sid) {
            if aut.is_dead(sid) {
                return Ok(mat);
            } else if aut.is_match(sid) {
                mat = Some(get_match(sid, at + 1));
                if matches!(aut.match_kind(), MatchKind::Standard) {
                    return Ok(mat);
                }
            }
        }
        at += 1;
    }
    Ok(mat)
}

/// caller-written loop (the documented recipe) next to the built-in search
pub fn ev_recipe(r: &mut Rec, s: &Searcher, hay: &[u8]) {
    if let Searcher::Low(a) = s {
        let (out, res) = outcome(guarded(|| {
            let rec = with_aut!(a, a => doc_recipe(a, hay))?;
            let built = s.try_find(Input::new(hay))?;
            Ok((om2v(&rec), om2v(&built)))
        }));
        r.put(json!(["recipe", false, false, out, res, 0]));
    }
}


/// Structured view of `Automaton::prefilter()`'s Debug output (data
/// handling only: which variant was built and with which bytes).
pub fn prefilter_info(s: &Searcher) -> Value {
    let d = s.prefilter_debug();
    if d.is_empty() || d == "none" {
        return json!({"variant": "none", "bytes": []});
    }
    let variant = ["StartBytesOne", "StartBytesTwo", "StartBytesThree", "RareBytesOne",
        "RareBytesTwo", "RareBytesThree", "Memmem", "Packed"]
        .iter()
        .find(|v| d.contains(&format!("{} ", v)) || d.contains(&format!("{}(", v)))
        .copied()
        .unwrap_or("unknown");
    let mut bytes = vec![];
    for key in ["byte1: ", "byte2: ", "byte3: "] {
        if let Some(i) = d.find(key) {
            let rest = &d[i + key.len()..];
            let num: String = rest.chars().take_while(|c| c.is_ascii_digit()).collect();
            if let Ok(n) = num.parse::<u32>() {
                bytes.push(n);
            }
        }
    }
    let kind = if variant.starts_with("Start") { "start" } else if variant.starts_with("Rare") { "rare" }
        else if variant == "Memmem" { "memmem" } else if variant == "Packed" { "packed" } else { "unknown" };
    json!({"variant": kind, "name": variant, "bytes": bytes})
}

/// one direct probe of the real prefilter
pub fn ev_probe(r: &mut Rec, s: &Searcher, hay: &[u8], sp: (usize, usize)) {
    if let Searcher::Low(a) = s {
        let g = guarded(|| {
            with_aut!(a, a => a.prefilter().map(|p| {
                match p.find_in(hay, aho_corasick::Span { start: sp.0, end: sp.1 }) {
                    aho_corasick::automaton::Candidate::None => json!(["none"]),
                    aho_corasick::automaton::Candidate::Match(m) => json!(["match", m2v(&m)]),
                    aho_corasick::automaton::Candidate::PossibleStartOfMatch(i) => json!(["possible", i]),
                }
            }))
        });
        match g {
            Ok(Some(v)) => r.put(json!(["probe", false, false, "ok", v, 0])),
            Ok(None) => {}
            Err(p) => r.put(json!(["probe", false, false, "panic", p, 0])),
        }
    }
}

/// pattern lists built to activate each prefilter variant
pub fn prefilter_lists(rg: &mut StdRng, which: usize) -> Pats {
    let letters = b"abcdefghijklmnopqrstuvwxyz";
    let rare = [b'Z', b'Q', b'#', 0xFEu8, b'~'];
    let mut word = |rg: &mut StdRng, lo: usize, hi: usize| -> Vec<u8> {
        (0..rg.gen_range(lo..=hi)).map(|_| letters[rg.gen_range(0..letters.len())]).collect()
    };
    match which % 10 {
        // two distinct LETTERS as first bytes (four start bytes once both cases count: one more than a
        // start-byte prefilter can hold), few patterns
        9 => {
            let l1 = letters[rg.gen_range(0..13)];
            let l2 = letters[13 + rg.gen_range(0..13)];
            let n = rg.gen_range(2..=5);
            (0..n).map(|i| { let mut w = vec![if i % 2 == 0 { l1 } else { l2 }]; w.extend(word(rg, 1, 4)); w }).collect()
        }
        // exactly two distinct first bytes, one a letter and one not (three start bytes once both
        // cases count), length >= 2, few patterns: where a case-insensitive searcher sits right at the
        // thresholds between the byte prefilters and the packed one
        8 => {
            let l = letters[rg.gen_range(0..letters.len())];
            let d = [b'1', b'#', b'-', b'@', b'['][rg.gen_range(0..5)];
            let n = rg.gen_range(2..=6);
            (0..n).map(|i| { let mut w = vec![if i % 2 == 0 { l } else { d }]; w.extend(word(rg, 1, 4)); w }).collect()
        }
        // packed-friendly list (>= 4 first bytes, min length >= 2) with NESTED patterns that all
        // stay in the automaton: a long pattern FIRST, then a proper prefix of it and an infix of
        // it (an occurrence of the long one contains occurrences of the others that end earlier)
        7 => {
            let mut v: Pats = (0..rg.gen_range(5..=9)).map(|i| { let mut w = vec![letters[(i * 3 + 2) % letters.len()]]; w.extend(word(rg, 3, 6)); w }).collect();
            let n = v.len();
            for k in 0..2 {
                let at = (k * 3) % n;
                let base = v[at].clone();
                let pre = base[..rg.gen_range(2..base.len())].to_vec();
                let a = rg.gen_range(1..base.len() - 2);
                let inf = base[a..rg.gen_range(a + 2..=base.len() - 1).max(a + 2)].to_vec();
                v.insert(at + 1, pre);
                v.push(inf);
            }
            v
        }
        // packed-friendly list with patterns that leftmost-first prunes (an earlier pattern is
        // a proper prefix) and duplicates, placed BEFORE other patterns
        6 => {
            let mut v: Pats = (0..rg.gen_range(5..=10)).map(|i| { let mut w = vec![letters[(i * 3 + 1) % letters.len()]]; w.extend(word(rg, 1, 4)); w }).collect();
            let n = v.len();
            for k in 0..2 {
                let base = v[(k * 2) % n].clone();
                let mut ext = base.clone();
                ext.extend(word(rg, 1, 3));
                v.insert((k * 2) % n + 1, ext);
            }
            let dup = v[n / 2].clone();
            v.insert(n / 2 + 1, dup);
            v
        }
        // a single pattern: memmem
        0 => vec![word(rg, 1, 8)],
        // <= 3 distinct first bytes: start bytes
        1 => {
            let firsts: Vec<u8> = (0..rg.gen_range(1..=3)).map(|_| letters[rg.gen_range(0..6)]).collect();
            (0..rg.gen_range(2..=6)).map(|_| { let mut w = vec![firsts[rg.gen_range(0..firsts.len())]]; w.extend(word(rg, 0, 5)); w }).collect()
        }
        // many first bytes but every pattern contains one of <= 3 rare bytes
        2 => {
            let rs: Vec<u8> = (0..rg.gen_range(1..=3)).map(|_| rare[rg.gen_range(0..rare.len())]).collect();
            (0..rg.gen_range(4..=9)).map(|_| {
                let mut w = word(rg, 0, 6);
                let pos = rg.gen_range(0..=w.len());
                w.insert(pos, rs[rg.gen_range(0..rs.len())]);
                w
            }).collect()
        }
        // a rare byte far from the start (large offsets, incl. > 255 bytes long: rare disabled)
        3 => {
            let r0 = rare[rg.gen_range(0..rare.len())];
            (0..rg.gen_range(4..=6)).map(|i| {
                let n = [3usize, 40, 200, 254, 255, 300][rg.gen_range(0..6)];
                let mut w: Vec<u8> = (0..n).map(|j| letters[(i * 7 + j) % letters.len()]).collect();
                w.push(r0);
                w.extend(word(rg, 0, 3));
                w
            }).collect()
        }
        // >= 4 first bytes, min length >= 2, few patterns: packed (leftmost kinds)
        4 => (0..rg.gen_range(4..=12)).map(|i| { let mut w = vec![letters[(i * 3) % letters.len()]]; w.extend(word(rg, 1, 6)); w }).collect(),
        // mixed-case letters (for case-insensitive searchers)
        _ => (0..rg.gen_range(1..=4)).map(|_| word(rg, 1, 5).iter().map(|&b| if rg.gen_bool(0.5) { b.to_ascii_uppercase() } else { b }).collect()).collect(),
    }
}


/// C19: one search with the work counters (hooks) around it
pub fn ev_work_find(r: &mut Rec, s: &Searcher, c: &Ctx, hay: &[u8], sp: (usize, usize), an: bool, early: bool) {
    let limit = 8 * (hay.len() as u64) + 256;
    aho_corasick::verif::reset_counters(limit);
    let g = guarded(|| s.try_find(mk_input(hay, sp.0, sp.1, an, early)).map(|m| om2v(&m)));
    let (t, fl) = aho_corasick::verif::counters();
    aho_corasick::verif::reset_counters(u64::MAX);
    let (out, res) = outcome(g);
    r.put(json!(["work", an, early, out, {"trans": t, "fails": fl, "res": res},
                 {"api": "find", "dfa": c.repr.contains("dfa"), "pre": c.pre}]));
}

/// C19: a whole stepwise overlapping search (cumulative counters)
pub fn ev_work_overlap(r: &mut Rec, s: &Searcher, c: &Ctx, hay: &[u8], sp: (usize, usize), an: bool) {
    let limit = 8 * (hay.len() as u64) + 256;
    aho_corasick::verif::reset_counters(limit);
    let g = guarded(|| {
        let input = mk_input(hay, sp.0, sp.1, an, false);
        let mut st = OverlappingState::start();
        let mut n = 0usize;
        loop {
            s.try_overlapping_step(&input, &mut st)?;
            if st.get_match().is_none() {
                break;
            }
            n += 1;
        }
        Ok::<usize, MatchError>(n)
    });
    let (t, fl) = aho_corasick::verif::counters();
    aho_corasick::verif::reset_counters(u64::MAX);
    let (out, res) = outcome(g);
    r.put(json!(["work", an, false, out, {"trans": t, "fails": fl, "res": res},
                 {"api": "overlap", "dfa": c.repr.contains("dfa"), "pre": c.pre}]));
}

/// adversarial pattern lists / haystacks for the work bound
pub fn work_cases(rg: &mut StdRng, which: usize, big: bool) -> (Pats, Vec<Vec<u8>>) {
    let n = if big { 4096 } else { 600 };
    let k = if big { 64 } else { 24 };
    match which % 6 {
        5 => {
            // a rare byte far from the pattern start: the rare-byte prefilter's candidates lie
            // up to `off` bytes BEFORE the byte it finds; haystacks in which those look-behind
            // windows cover almost everything
            let off = if big { 200 } else { 60 };
            let pats: Pats = (0..5u8).map(|j| { let mut p = vec![b'a' + j; off]; p.push(b'Z'); p }).collect();
            let mut h = vec![];
            while h.len() + off + 1 < n {
                h.extend(std::iter::repeat(b'x').take(off - 1 - (h.len() % 7)));
                h.push(b'Z');
            }
            h.extend(std::iter::repeat(b'c').take(off));
            h.push(b'Z');
            let mut h2 = vec![];
            while h2.len() + 8 < n {
                h2.extend_from_slice(b"abxZcde");
            }
            (pats, vec![h, h2])
        }
        0 => {
            // a^j b for j = 1..k, haystack a^n with rare b's
            let pats: Pats = (1..=k).map(|j| { let mut p = vec![b'a'; j]; p.push(b'b'); p }).collect();
            let mut h = vec![b'a'; n];
            for i in (0..n).step_by(97) { h[i] = b'c'; }
            let mut h2 = vec![b'a'; n];
            for i in (k + 1..n).step_by(k + 3) { h2[i] = b'b'; }
            (pats, vec![h, h2])
        }
        1 => {
            // nested suffixes of one long word, haystack = word without its last byte, repeated
            let w: Vec<u8> = (0..k).map(|i| b'a' + ((i * i + 3 * i) % 7) as u8).collect();
            let pats: Pats = (0..w.len()).map(|i| { let mut p = w[i..].to_vec(); p.push(b'!'); p }).collect();
            let mut h = vec![];
            while h.len() < n { h.extend_from_slice(&w); }
            (pats, vec![h])
        }
        2 => {
            // deep failure chain: (ab)^k c, haystack (ab)^m d ...
            let mut p = vec![];
            for _ in 0..k { p.extend_from_slice(b"ab"); }
            p.push(b'c');
            let mut p2 = p.clone();
            p2.pop();
            p2.push(b'e');
            let mut h = vec![];
            while h.len() < n {
                for _ in 0..(k - 1) { h.extend_from_slice(b"ab"); }
                h.push(b'd');
            }
            let mut h2 = vec![];
            while h2.len() < n { h2.extend_from_slice(b"ab"); }
            (vec![p, p2, b"b".to_vec()], vec![h, h2])
        }
        3 => {
            // case-insensitive trie with long shared prefixes
            let base: Vec<u8> = (0..k).map(|i| if i % 2 == 0 { b'x' } else { b'Y' }).collect();
            let pats: Pats = (1..=base.len()).step_by(3).map(|j| { let mut p = base[..j].to_vec(); p.push(b'Q'); p }).collect();
            let h: Vec<u8> = (0..n).map(|i| if i % 2 == 0 { b'X' } else { b'y' }).collect();
            (pats, vec![h])
        }
        _ => {
            let pats = gen::random_pats(rg, 10, 8);
            let hs = (0..3).map(|_| gen::random_hay(rg, &pats, false, if big { 1000 } else { 200 })).collect();
            (pats, hs)
        }
    }
}

// ---------------------------------------------------------------------------
// families

pub struct CallStats {
    pub contexts: usize,
    pub events: usize,
}

fn all_flavours_top(r: &mut Rec, s: &Searcher, c: &Ctx, f: &Filter, hay: &[u8], sp: (usize, usize)) {
    all_flavours(r, s, c, f, hay, sp)
}

fn supported(c: &Ctx, an: bool) -> bool {
    match c.effective_sk() {
        "both" => true,
        "anchored" => an,
        _ => !an,
    }
}

/// which calls a family records (so that each property's check records the
/// calls that property speaks about)
#[derive(Clone)]
pub struct Filter {
    pub mks: Vec<&'static str>,
    /// anchoring modes
    pub ans: Vec<bool>,
    /// subset of find, early, is_match, iter, overlap
    pub flav: Vec<String>,
}

impl Filter {
    pub fn has(&self, f: &str) -> bool {
        self.flav.iter().any(|x| x == f || x == "all")
    }
}

/// the INFALLIBLE entry points of the top-level searcher (find, find_iter,
/// find_overlapping_iter, find_overlapping, is_match is already covered),
/// recorded under the same call kinds as their try_ twins
fn infallible_flavours(r: &mut Rec, s: &Searcher, c: &Ctx, f: &Filter, hay: &[u8], sp: (usize, usize), an: bool) {
    let ac = match s { Searcher::Top(ac) => ac, _ => return };
    if f.has("find") {
        let g = guarded(|| ac.find(mk_input(hay, sp.0, sp.1, an, false)));
        let (o, v) = match g { Ok(m) => ("ok", om2v(&m)), Err(p) => ("panic", json!(p)) };
        r.put(json!(["find", an, false, o, v, "infallible"]));
    }
    if f.has("iter") {
        let lim = s.item_limit(&mk_input(hay, sp.0, sp.1, an, false));
        let g = guarded(|| ac.find_iter(mk_input(hay, sp.0, sp.1, an, false)).take(lim + 1).map(|m| m2v(&m)).collect::<Vec<_>>());
        let (o, v) = match g { Ok(v) => (if v.len() > lim { "runaway" } else { "ok" }, json!(v)), Err(p) => ("panic", json!(p)) };
        r.put(json!(["iter", an, false, o, v, "infallible"]));
    }
    if c.mk == "std" && f.has("overlap") && !an {
        let lim = s.item_limit(&mk_input(hay, sp.0, sp.1, false, false));
        let g = guarded(|| ac.find_overlapping_iter(mk_input(hay, sp.0, sp.1, false, false)).take(lim + 1).map(|m| m2v(&m)).collect::<Vec<_>>());
        let (o, v) = match g { Ok(v) => (if v.len() > lim { "runaway" } else { "ok" }, json!(v)), Err(p) => ("panic", json!(p)) };
        r.put(json!(["overlap_iter", false, false, o, v, "infallible"]));
        let g = guarded(|| {
            let mut st = OverlappingState::start();
            let mut res = vec![];
            loop {
                ac.find_overlapping(mk_input(hay, sp.0, sp.1, false, false), &mut st);
                match st.get_match() { Some(m) if res.len() <= lim => res.push(m2v(&m)), _ => break }
            }
            res
        });
        let (o, v) = match g { Ok(v) => (if v.len() > lim { "runaway" } else { "ok" }, json!(v)), Err(p) => ("panic", json!(p)) };
        r.put(json!(["overlap_iter", false, false, o, v, "infallible-step"]));
    }
}

/// every selected search flavour on one (hay, span)
fn all_flavours(r: &mut Rec, s: &Searcher, c: &Ctx, f: &Filter, hay: &[u8], sp: (usize, usize)) {
    for &an in &f.ans {
        if !supported(c, an) {
            continue;
        }
        if f.has("find") {
            ev_find(r, s, hay, sp, an, false);
        }
        if f.has("early") {
            ev_find(r, s, hay, sp, an, true);
        }
        if f.has("is_match") {
            ev_is_match(r, s, hay, sp, an);
        }
        if f.has("iter") {
            ev_iter(r, s, hay, sp, an);
        }
        if c.mk == "std" && f.has("overlap") {
            ev_overlap_step(r, s, hay, sp, an, 2);
            if !an {
                ev_overlap_iter(r, s, hay, sp);
            }
        }
        infallible_flavours(r, s, c, f, hay, sp, an);
    }
    r.flush(hay, sp);
}

const REPRS_SMALL: [&str; 4] = ["nc", "c", "dfa", "top-auto"];
const REPRS_ALL: [&str; 7] = ["nc", "c", "dfa", "top-nc", "top-c", "top-dfa", "top-auto"];

pub fn run(out_prefix: &str, shards: usize, family: &str, seed: u64, scale: usize, f: &Filter) -> CallStats {
    let mut out = Out::create(out_prefix, shards);
    let mut stats = CallStats { contexts: 0, events: 0 };
    let mut shard = 0usize;
    let mut with_ctx = |out: &mut Out, stats: &mut CallStats, c: &Ctx,
                        f: &mut dyn FnMut(&mut Rec, &Searcher)| {
        let s = Searcher::build(c);
        let mut r = Rec::begin(out, shard, c, &s);
        if let Ok(s) = &s {
            f(&mut r, s);
        }
        stats.contexts += 1;
        stats.events += r.n_events;
        shard += 1;
    };
    match family {
        // exhaustive small: F(2,2) x kinds x reprs x all hays <= 4 x all spans
        "enum" => {
            let hays = gen::all_hays(b"ab", 2 + scale.min(2));
            // with a third byte the automaton falls back to its start state, where a
            // prefilter (when there is one) takes over
            let hays3 = gen::all_hays(b"abc", 2 + scale.min(2));
            for pats in gen::family(b"ab", 2, 2) {
                for &mk in &f.mks {
                    for (repr, pre) in [("nc", false), ("top-auto", false), ("c", true)] {
                        let mut c = Ctx::new(&pats, mk, repr);
                        c.pre = pre;
                        let hays = if pre { &hays3 } else { &hays };
                        with_ctx(&mut out, &mut stats, &c, &mut |r, s| {
                            for h in hays {
                                for sp in gen::all_spans(h.len()) {
                                    all_flavours(r, s, &c, f, h, sp);
                                }
                            }
                        });
                    }
                }
            }
        }
        // seeded random contexts and haystacks over real bytes, all reprs/options
        "rand" => {
            let mut rg = gen::rng(seed, 0xCA11_0001);
            for i in 0..(60 * scale) {
                let pats = gen::random_pats(&mut rg, 8, 6);
                let ci = rg.gen_range(0..3) == 0;
                let mk = f.mks[rg.gen_range(0..f.mks.len())];
                let repr = REPRS_ALL[i % REPRS_ALL.len()];
                let mut c = Ctx::new(&pats, mk, repr);
                c.ci = ci;
                c.pre = rg.gen_bool(0.5);
                c.bc = rg.gen_bool(0.7);
                c.dd = *[-1i64, 0, 1, 2, 50].get(rg.gen_range(0..5)).unwrap();
                c.sk = SKS[rg.gen_range(0..3)];
                let mut hays: Vec<Vec<u8>> =
                    (0..12).map(|_| gen::random_hay(&mut rg, &pats, ci, 40)).collect();
                hays.extend(gen::stale_hays(&mut rg, &pats, 2));
                let spans: Vec<(usize, usize)> =
                    hays.iter().map(|h| gen::random_span(&mut rg, h.len())).collect();
                with_ctx(&mut out, &mut stats, &c, &mut |r, s| {
                    for (h, &sp) in hays.iter().zip(spans.iter()) {
                        all_flavours(r, s, &c, f, h, sp);
                        all_flavours(r, s, &c, f, h, (0, h.len()));
                    }
                });
            }
        }
        // the same calls through every representation and the top-level
        // searcher, with varied options (C04)
        "kinds" => {
            let mut rg = gen::rng(seed, 0xCA11_0002);
            for it in 0..(12 * scale) {
                // a few large collections: more than 100 patterns (the automatic kind
                // switches), more than 256 pattern ids
                let pats = if it % 6 == 5 {
                    let n = [100usize, 101, 120, 300][(it / 6) % 4];
                    (0..n).map(|k| { let l = rg.gen_range(2..=4); let mut w: Vec<u8> = (0..l).map(|_| b'a' + rg.gen_range(0..5u8)).collect(); if k % 7 == 0 { w.push(b'a' + (k % 26) as u8); } w }).collect()
                } else { gen::random_pats(&mut rg, 8, 6) };
                let ci = rg.gen_range(0..3) == 0;
                let mk = f.mks[rg.gen_range(0..f.mks.len())];
                let hays: Vec<Vec<u8>> =
                    (0..10).map(|_| gen::random_hay(&mut rg, &pats, ci, 48)).collect();
                let spans: Vec<(usize, usize)> =
                    hays.iter().map(|h| gen::random_span(&mut rg, h.len())).collect();
                let dd = *[-1i64, 0, 1, 2, 50].get(rg.gen_range(0..5)).unwrap();
                let bc = rg.gen_bool(0.5);
                let pre = rg.gen_bool(0.5);
                for repr in REPRS_ALL {
                    for sk in SKS {
                        if sk != "both" && !repr.contains("dfa") && !repr.starts_with("top") {
                            continue;
                        }
                        let mut c = Ctx::new(&pats, mk, repr);
                        c.ci = ci;
                        c.dd = dd;
                        c.bc = bc;
                        c.pre = pre;
                        c.sk = sk;
                        // the top-level searcher enforces its start kind for every kind
                        with_ctx(&mut out, &mut stats, &c, &mut |r, s| {
                            // the facade must hand its options to the automaton builders: its Debug
                            // dump (every state, transition, match list) is that of the low-level
                            // automaton built directly with the same options
                            if let (Searcher::Top(ac), true) = (s, repr.starts_with("top-") && repr != "top-auto") {
                                let mut lc = c.clone();
                                lc.repr = &repr[4..];
                                if let Ok(low) = build_low(&lc) {
                                    let top = format!("{:?}", ac);
                                    let lowd = with_aut!(&low, a => format!("AhoCorasick({:?})", a));
                                    let fnv = |s: &str| { let mut h: u64 = 0xcbf29ce484222325; for b in s.bytes() { h ^= b as u64; h = h.wrapping_mul(0x100000001b3); } format!("{:016x}:{}", h, s.len()) };
                                    r.put(json!(["debug_eq", false, false, "ok", [fnv(&top), fnv(&lowd)], 0]));
                                    r.flush(&[], (0, 0));
                                }
                            }
                            for (h, &sp) in hays.iter().zip(spans.iter()) {
                                all_flavours_top(r, s, &c, f, h, sp);
                            }
                        });
                    }
                }
            }
        }
        // the documented caller-written loop vs the built-in search (C16)
        "recipe" => {
            let mut rg = gen::rng(seed, 0xCA11_0003);
            let small = gen::family(b"ab", 2, 2);
            let hays_small = gen::all_hays(b"ab", 4);
            for pats in &small {
                for &mk in &f.mks {
                    for repr in ["nc", "c", "dfa"] {
                        let c = Ctx::new(pats, mk, repr);
                        with_ctx(&mut out, &mut stats, &c, &mut |r, s| {
                            for h in &hays_small {
                                ev_recipe(r, s, h);
                                r.flush(h, (0, h.len()));
                            }
                        });
                    }
                }
            }
            for i in 0..(40 * scale) {
                let pats = gen::random_pats(&mut rg, 8, 6);
                let mk = f.mks[rg.gen_range(0..f.mks.len())];
                let mut c = Ctx::new(&pats, mk, ["nc", "c", "dfa"][i % 3]);
                c.ci = rg.gen_range(0..3) == 0;
                c.pre = rg.gen_bool(0.5);
                let hays: Vec<Vec<u8>> =
                    (0..16).map(|_| gen::random_hay(&mut rg, &pats, c.ci, 48)).collect();
                with_ctx(&mut out, &mut stats, &c, &mut |r, s| {
                    for h in &hays {
                        ev_recipe(r, s, h);
                        r.flush(h, (0, h.len()));
                    }
                });
            }
        }
        // nested patterns: a pattern whose proper prefix ends with another (shorter) pattern
        // without being a pattern itself - states that only INHERIT a match (anchored filter,
        // earliest mode, leftmost cut)
        "nested" => {
            let words: Vec<Vec<u8>> = gen::all_strings(b"abc", 4).into_iter().filter(|w| w.len() >= 3).collect();
            let mut idx = 0usize;
            for w in &words {
                // u: a proper suffix/infix of a proper prefix of w (length 1..2), not a prefix of w
                let mut us: Vec<Vec<u8>> = vec![];
                for pl in 2..w.len() {
                    for st in 1..pl {
                        let u = w[st..pl].to_vec();
                        if !w.starts_with(&u) && !us.contains(&u) {
                            us.push(u);
                        }
                    }
                }
                for u in us.iter().take(if scale > 1 { 4 } else { 2 }) {
                    idx += 1;
                    if scale < 2 && idx % 3 != 0 {
                        continue;
                    }
                    let mut uu = u.clone();
                    uu.extend_from_slice(u);
                    for pats in [vec![u.clone(), w.clone()], vec![w.clone(), u.clone()], vec![u.clone(), uu.clone(), w.clone()]] {
                        for &mk in &f.mks {
                            let repr = ["nc", "dfa", "top-auto", "c"][idx % 4];
                            let c = Ctx::new(&pats, mk, repr);
                            let mut hays: Vec<Vec<u8>> = vec![w.clone()];
                            for b in [b'a', b'c', b'_'] {
                                let mut h = w.clone(); h.push(b); hays.push(h);
                                let mut h = vec![b]; h.extend_from_slice(w); hays.push(h);
                            }
                            with_ctx(&mut out, &mut stats, &c, &mut |r, s| {
                                for h in &hays {
                                    for sp in [(0usize, h.len()), (1, h.len()), (0, h.len() - 1)] {
                                        all_flavours(r, s, &c, f, h, sp);
                                    }
                                }
                            });
                        }
                    }
                }
            }
        }
        // replace_all in all its forms (C12)
        "replace" => {
            let mut rg = gen::rng(seed, 0xCA11_0004);
            // exhaustive small: byte and str variants, every stop position
            let u8pool: &[u8] = &[b'a', 0xC3, 0xA9];
            let small = gen::family(u8pool, 2, 2);
            let strs: Vec<Vec<u8>> = gen::all_hays(u8pool, 4)
                .into_iter()
                .filter(|h| std::str::from_utf8(h).is_ok())
                .collect();
            let bhays = gen::all_hays(b"ab", 3);
            for (pi, pats) in small.iter().enumerate() {
                if pats.is_empty() {
                    continue;
                }
                for (mi, &mk) in f.mks.iter().enumerate() {
                    // (quick tier: each list under one match kind, rotating)
                    if scale < 2 && (pi + mi) % 3 != 0 && f.mks.len() == 3 {
                        continue;
                    }
                    let repr = ["top-auto", "nc", "c", "dfa"][pi % 4];
                    let c = Ctx::new(pats, mk, repr);
                    let rep: Vec<String> = (0..pats.len()).map(|k| ["", "X", "\u{e9}y"][(k + pi) % 3].to_string()).collect();
                    let repb: Vec<Vec<u8>> = rep.iter().map(|x| x.as_bytes().to_vec()).collect();
                    with_ctx(&mut out, &mut stats, &c, &mut |r, s| {
                        for h in &strs {
                            let hs = std::str::from_utf8(h).unwrap();
                            ev_replace_str(r, s, hs, &rep, 0, true);
                            for stop in 0..=2 {
                                ev_replace_str(r, s, hs, &rep, stop, false);
                            }
                            ev_replace_bytes(r, s, h, &repb, 0);
                            r.flush(h, (0, h.len()));
                        }
                    });
                    let pb: Pats = pats.iter().map(|p| p.iter().map(|&b| if b == b'a' { b'a' } else { b'b' }).collect()).collect();
                    let c2 = Ctx::new(&pb, mk, repr);
                    with_ctx(&mut out, &mut stats, &c2, &mut |r, s| {
                        for h in &bhays {
                            ev_replace_all_bytes(r, s, h, &repb);
                            for stop in 0..=3 {
                                ev_replace_bytes(r, s, h, &repb, stop);
                            }
                            r.flush(h, (0, h.len()));
                        }
                    });
                }
            }
            // every way of cutting a 2-, 3- and 4-byte character in two (and three) byte patterns:
            // matches that start or end inside the character, adjacent to each other
            for (ci_, ch) in ["\u{e9}", "\u{20ac}", "\u{1F600}", "\u{2000}"].iter().enumerate() {
                let b = ch.as_bytes();
                let mut lists: Vec<Pats> = vec![];
                for k in 1..b.len() {
                    lists.push(vec![b[..k].to_vec(), b[k..].to_vec()]);
                    lists.push(vec![b[k..].to_vec(), b[..k].to_vec()]);
                    lists.push(vec![b[k..].to_vec()]);
                    lists.push(vec![b[..k].to_vec()]);
                    lists.push(vec![b[k..k + 1].to_vec()]);
                    for j in k + 1..b.len() {
                        lists.push(vec![b[..k].to_vec(), b[k..j].to_vec(), b[j..].to_vec()]);
                    }
                }
                for (li, pats) in lists.iter().enumerate() {
                    let mk = f.mks[(li + ci_) % f.mks.len()];
                    let c = Ctx::new(pats, mk, REPRS_ALL[(li + ci_) % REPRS_ALL.len()]);
                    let rep: Vec<String> = (0..pats.len()).map(|k| ["<>", "", "\u{e9}"][(k + li) % 3].to_string()).collect();
                    let repb: Vec<Vec<u8>> = rep.iter().map(|x| x.as_bytes().to_vec()).collect();
                    let hays: Vec<String> = vec![format!("a{}b", ch), format!("{}", ch), format!("{}{}", ch, ch), format!("x{}y{}", ch, ch), format!("{}!", ch)];
                    with_ctx(&mut out, &mut stats, &c, &mut |r, s| {
                        for hs in &hays {
                            ev_replace_str(r, s, hs, &rep, 0, true);
                            for stop in 0..=2 {
                                ev_replace_str(r, s, hs, &rep, stop, false);
                            }
                            ev_replace_bytes(r, s, hs.as_bytes(), &repb, 0);
                            r.flush(hs.as_bytes(), (0, hs.len()));
                        }
                    });
                }
            }
            // nested / overlapping ASCII patterns (an occurrence strictly inside another one, shared
            // prefixes and suffixes, duplicates, the empty pattern): the splice must follow the
            // iterator's choice under every match kind
            let mut nested_lists: Vec<Pats> = vec![
                vec![b"abcd".to_vec(), b"bc".to_vec()],
                vec![b"bc".to_vec(), b"abcd".to_vec()],
                vec![b"abcde".to_vec(), b"c".to_vec(), b"bcd".to_vec()],
                vec![b"ab".to_vec(), b"abc".to_vec(), b"c".to_vec(), vec![]],
            ];
            for _ in 0..(10 * scale) {
                nested_lists.push(gen::random_pats_over(&mut rg, b"abc", 5, 5, true));
            }
            for (li, pats) in nested_lists.iter().enumerate() {
                for &mk in &f.mks {
                    let c = Ctx::new(pats, mk, REPRS_ALL[li % REPRS_ALL.len()]);
                    let rep: Vec<String> = (0..pats.len()).map(|k| format!("<{}>", k)).collect();
                    let repb: Vec<Vec<u8>> = rep.iter().map(|x| x.as_bytes().to_vec()).collect();
                    let mut hays: Vec<Vec<u8>> = vec![b"xabcdx abcd".to_vec(), b"abcde".to_vec(), b"cabcabc".to_vec()];
                    for _ in 0..5 {
                        hays.push(gen::random_hay(&mut rg, pats, false, 24));
                    }
                    with_ctx(&mut out, &mut stats, &c, &mut |r, s| {
                        for h in &hays {
                            ev_replace_all_bytes(r, s, h, &repb);
                            for stop in 0..=2 {
                                ev_replace_bytes(r, s, h, &repb, stop);
                            }
                            ev_replace_infallible(r, s, h, &repb);
                            if let Ok(hs) = std::str::from_utf8(h) {
                                ev_replace_str(r, s, hs, &rep, 0, true);
                                ev_replace_str(r, s, hs, &rep, 1, false);
                            }
                            r.flush(h, (0, h.len()));
                        }
                    });
                }
            }
            // random: multi-byte characters split by byte patterns, empty pattern, ci
            let chars = ["a", "b", "\u{e9}", "\u{20ac}", "\u{1F600}", "Z", "\u{df}"];
            for i in 0..(40 * scale) {
                let mut pats: Pats = vec![];
                let n = rg.gen_range(1..=5);
                for _ in 0..n {
                    let ch = chars[rg.gen_range(0..chars.len())].as_bytes();
                    let p: Vec<u8> = match rg.gen_range(0..6) {
                        0 => vec![],
                        1 => ch.to_vec(),
                        2 => ch[..rg.gen_range(0..=ch.len())].to_vec(),
                        3 => ch[rg.gen_range(0..ch.len())..].to_vec(),
                        4 => {
                            let mut v = ch.to_vec();
                            v.extend_from_slice(chars[rg.gen_range(0..chars.len())].as_bytes());
                            v
                        }
                        _ => {
                            let c2 = chars[rg.gen_range(0..chars.len())].as_bytes();
                            let mut v = ch[ch.len() - 1..].to_vec();
                            v.extend_from_slice(&c2[..1]);
                            v
                        }
                    };
                    pats.push(p);
                }
                let mk = f.mks[rg.gen_range(0..f.mks.len())];
                let mut c = Ctx::new(&pats, mk, REPRS_ALL[i % REPRS_ALL.len()]);
                c.ci = rg.gen_range(0..4) == 0;
                c.sk = if rg.gen_bool(0.5) { "both" } else { "unanchored" };
                let rep: Vec<String> = (0..pats.len())
                    .map(|_| (0..rg.gen_range(0..3)).map(|_| chars[rg.gen_range(0..chars.len())]).collect::<String>())
                    .collect();
                let repb: Vec<Vec<u8>> = rep.iter().map(|x| x.as_bytes().to_vec()).collect();
                let hays: Vec<String> = (0..8)
                    .map(|_| (0..rg.gen_range(0..12)).map(|_| chars[rg.gen_range(0..chars.len())]).collect::<String>())
                    .collect();
                with_ctx(&mut out, &mut stats, &c, &mut |r, s| {
                    for h in &hays {
                        ev_replace_str(r, s, h, &rep, 0, true);
                        ev_replace_str(r, s, h, &rep, rg.gen_range(0..4), false);
                        ev_replace_all_bytes(r, s, h.as_bytes(), &repb);
                        ev_replace_bytes(r, s, h.as_bytes(), &repb, rg.gen_range(0..4));
                        if c.sk != "anchored" {
                            ev_replace_infallible(r, s, h.as_bytes(), &repb);
                        }
                        r.flush(h.as_bytes(), (0, h.len()));
                    }
                });
            }
        }
        // span locality (C10): the call on (hay, span), on a copy whose bytes
        // outside the span are replaced (by bytes that would create matches
        // straddling the boundary), and on the sub-slice
        "span" => {
            let mut rg = gen::rng(seed, 0xCA11_0005);
            let mut span_triple = |r: &mut Rec, s: &Searcher, c: &Ctx, h: &[u8], sp: (usize, usize), rg: &mut rand::rngs::StdRng| {
                if supported(c, false) {
                    ev_find_range_forms(r, s, h, sp, false);
                }
                all_flavours(r, s, c, f, h, sp);
                if sp.0 <= sp.1 {
                    let mut m = h.to_vec();
                    let alpha = gen::alphabet_of(&c.pats, c.ci);
                    for (i, b) in m.iter_mut().enumerate() {
                        if i < sp.0 || i >= sp.1 {
                            *b = alpha[rg.gen_range(0..alpha.len())];
                        }
                    }
                    // plant a pattern across each boundary
                    if !c.pats.is_empty() {
                        let p = &c.pats[rg.gen_range(0..c.pats.len())];
                        if p.len() >= 2 {
                            let k = rg.gen_range(1..p.len());
                            // ends inside: starts k bytes before sp.0
                            if sp.0 >= k {
                                for j in 0..k { m[sp.0 - k + j] = p[j]; }
                            }
                            // starts inside: continues after sp.1
                            for j in 0..(p.len() - k) {
                                if sp.1 + j < m.len() { m[sp.1 + j] = p[k + j]; }
                            }
                        }
                    }
                    all_flavours(r, s, c, f, &m, sp);
                    let sub = h[sp.0..sp.1].to_vec();
                    all_flavours(r, s, c, f, &sub, (0, sub.len()));
                }
            };
            // exhaustive small
            let hays = gen::all_hays(b"ab", 3);
            for (pi, pats) in gen::family(b"ab", 2, 2).iter().enumerate() {
                if scale < 2 && pi % 2 == 1 {
                    continue;
                }
                for &mk in &f.mks {
                    let c = Ctx::new(pats, mk, ["nc", "top-auto", "c", "dfa"][pi % 4]);
                    with_ctx(&mut out, &mut stats, &c, &mut |r, s| {
                        for h in &hays {
                            for sp in gen::all_spans(h.len()) {
                                span_triple(r, s, &c, h, sp, &mut rg);
                            }
                        }
                    });
                }
            }
            // contexts 2k: random lists; contexts 2k+1: built to carry a prefilter - every variant
            // of prefilter_lists under every match kind (packed/Teddy exists for the leftmost
            // kinds only and needs spans longer than a vector; shorter spans go to Rabin-Karp)
            let npre = 10 * f.mks.len() * scale;
            for i in 0..(2 * npre.max(15 * scale)) {
                if i % 2 == 0 && i / 2 >= 15 * scale { continue; }
                if i % 2 == 1 && i / 2 >= npre { continue; }
                let pats = if i % 2 == 0 { gen::random_pats(&mut rg, 6, 6) } else { prefilter_lists(&mut rg, i / 2) };
                let mk = if i % 2 == 1 { f.mks[(i / 2 / 10) % f.mks.len()] } else { f.mks[rg.gen_range(0..f.mks.len())] };
                let mut c = Ctx::new(&pats, mk, REPRS_ALL[i % REPRS_ALL.len()]);
                c.ci = i % 2 == 0 && rg.gen_range(0..3) == 0;
                c.pre = i % 2 == 1 || rg.gen_bool(0.7);
                let maxlen = if i % 2 == 1 { 90 } else { 40 };
                let hays: Vec<Vec<u8>> =
                    (0..6).map(|_| gen::random_hay(&mut rg, &pats, c.ci, maxlen)).collect();
                with_ctx(&mut out, &mut stats, &c, &mut |r, s| {
                    for h in &hays {
                        for k in 0..3 {
                            let mut sp = gen::random_span(&mut rg, h.len());
                            if k == 0 && h.len() >= 50 {
                                // a long span that ends well before the haystack does
                                sp = (rg.gen_range(0..8), h.len() - rg.gen_range(4..12));
                            }
                            span_triple(r, s, &c, h, sp, &mut rg);
                            // a pattern that contains another one straddles the span end such that
                            // the inner one still fits inside the span (the searcher must report
                            // the inner one and must not be distracted by the outer one)
                            if sp.0 < sp.1 && sp.1 < h.len() {
                                let mut parents: Vec<(usize, usize, usize)> = vec![]; // (p, offset of q in p, len q)
                                for (pi, p) in pats.iter().enumerate() {
                                    for q in pats.iter() {
                                        if q.is_empty() || q.len() >= p.len() { continue; }
                                        for j in 0..(p.len() - q.len()) {
                                            if &p[j..j + q.len()] == &q[..] { parents.push((pi, j, q.len())); }
                                        }
                                    }
                                }
                                if !parents.is_empty() {
                                    let (pi, j, ql) = parents[rg.gen_range(0..parents.len())];
                                    let p = &pats[pi];
                                    let filler = *[b'_', b'~', 0x01].iter().find(|b| !pats.iter().any(|q| q.contains(b))).unwrap_or(&b'_');
                                    // kk bytes of p lie inside the span: j + ql <= kk < len p
                                    let kk = rg.gen_range(j + ql..p.len());
                                    for fill_all in [true, false] {
                                        let mut h2 = if fill_all { vec![filler; h.len()] } else { h.clone() };
                                        for (x, &b) in p.iter().enumerate() {
                                            let pos = sp.1 as isize - kk as isize + x as isize;
                                            if pos >= 0 && (pos as usize) < h2.len() { h2[pos as usize] = b; }
                                        }
                                        span_triple(r, s, &c, &h2, sp, &mut rg);
                                    }
                                }
                            }
                            // the same with a pattern straddling the span end (and one straddling
                            // the start) in the ORIGINAL haystack and nothing else inside
                            if sp.0 <= sp.1 && !pats.is_empty() {
                                let p = &pats[rg.gen_range(0..pats.len())];
                                if p.len() >= 2 && sp.1 >= 1 && sp.1 < h.len() {
                                    let filler = *[b'_', b'~', 0x01].iter().find(|b| !pats.iter().any(|q| q.contains(b))).unwrap_or(&b'_');
                                    let mut h2 = vec![filler; h.len()];
                                    let kk = rg.gen_range(1..p.len());
                                    for j in 0..p.len() {
                                        let pos = sp.1 as isize - kk as isize + j as isize;
                                        if pos >= 0 && (pos as usize) < h2.len() { h2[pos as usize] = p[j]; }
                                    }
                                    span_triple(r, s, &c, &h2, sp, &mut rg);
                                }
                            }
                        }
                    }
                });
            }
        }
        // ASCII case-insensitivity (C11): mixed-case letters, boundary bytes,
        // non-ASCII bytes
        "ci" => {
            let mut rg = gen::rng(seed, 0xCA11_0006);
            let hays = gen::all_hays(b"aAb@", 3);
            for (pi, pats) in gen::family(b"aAb", 2, 2).iter().enumerate() {
                for &mk in &f.mks {
                    // with and without a prefilter (a single pattern gets a substring prefilter,
                    // several get byte prefilters), alternating by list and kind
                    let mut c = Ctx::new(pats, mk, ["nc", "top-auto", "c", "dfa"][pi % 4]);
                    c.ci = true;
                    c.pre = (pi + mk.len()) % 2 == 0 || pats.len() == 1;
                    with_ctx(&mut out, &mut stats, &c, &mut |r, s| {
                        for h in &hays {
                            all_flavours(r, s, &c, f, h, (0, h.len()));
                        }
                    });
                }
            }
            // one pattern, written all-lowercase / all-uppercase / mixed, letters next to
            // non-letters: the single-substring prefilter must not be case-exact
            for i in 0..(6 * scale) {
                let base: Vec<u8> = prefilter_lists(&mut rg, 0).remove(0);
                let mut base = base;
                if i % 2 == 1 { let k = rg.gen_range(0..=base.len()); base.insert(k, [b'@', b'[', b'1', 0xC1][i / 2 % 4]); }
                for render in 0..3 {
                    let p: Vec<u8> = match render { 0 => base.to_ascii_lowercase(), 1 => base.to_ascii_uppercase(),
                        _ => base.iter().enumerate().map(|(j, &b)| if j % 2 == 0 { b.to_ascii_uppercase() } else { b }).collect() };
                    let pats: Pats = vec![p];
                    let mk = f.mks[(i + render) % f.mks.len()];
                    let mut c = Ctx::new(&pats, mk, ["top-auto", "nc", "c", "dfa"][(i + render) % 4]);
                    c.ci = true;
                    c.pre = true;
                    let hays: Vec<Vec<u8>> = (0..6).map(|k| {
                        let mut h = gen::random_hay(&mut rg, &pats, true, 50);
                        match k % 3 { 0 => h.make_ascii_lowercase(), 1 => h.make_ascii_uppercase(), _ => {} }
                        h
                    }).collect();
                    with_ctx(&mut out, &mut stats, &c, &mut |r, s| {
                        for h in &hays {
                            all_flavours(r, s, &c, f, h, (0, h.len()));
                        }
                    });
                }
            }
            // case-insensitive searchers whose prefilter is a rare-byte / start-byte
            // prefilter over letters written in either case
            for i in 0..(18 * scale) {
                let pats: Pats = prefilter_lists(&mut rg, [2usize, 8, 3, 9, 1, 8, 5, 9][i % 8])
                    .into_iter()
                    .map(|p| p.iter().map(|&b| if rg.gen_bool(0.3) && b.is_ascii_lowercase() { b.to_ascii_uppercase() } else { b }).collect())
                    .collect();
                let mk = f.mks[i % f.mks.len()];
                for repr in ["nc", "top-auto", "dfa", "c"] {
                    let mut c = Ctx::new(&pats, mk, repr);
                    c.ci = true;
                    c.pre = true;
                    let hays: Vec<Vec<u8>> = (0..8).map(|_| {
                        let mut h = gen::random_hay(&mut rg, &pats, true, 60);
                        // all-lowercase and all-uppercase renderings as well
                        match rg.gen_range(0..3) { 0 => h.make_ascii_lowercase(), 1 => h.make_ascii_uppercase(), _ => {} }
                        h
                    }).collect();
                    with_ctx(&mut out, &mut stats, &c, &mut |r, s| {
                        for h in &hays {
                            ev_probe(r, s, h, (0, h.len()));
                            all_flavours(r, s, &c, f, h, (0, h.len()));
                        }
                    });
                }
            }
            let pools: [&[u8]; 4] = [b"aAbB", b"aA@[`{zZ", &[b'k', b'K', 0xCB, 0xEB, 0x4B ^ 0x80], b"xXyY01"];
            for i in 0..(40 * scale) {
                let pool = pools[i % pools.len()];
                let pats = gen::random_pats_over(&mut rg, pool, 6, 5, true);
                let mk = f.mks[rg.gen_range(0..f.mks.len())];
                let mut c = Ctx::new(&pats, mk, REPRS_ALL[i % REPRS_ALL.len()]);
                c.ci = true;
                c.pre = rg.gen_bool(0.6);
                c.bc = rg.gen_bool(0.6);
                let mut hays: Vec<Vec<u8>> =
                    (0..10).map(|_| gen::random_hay(&mut rg, &pats, true, 40)).collect();
                // plus haystacks drawn from the pool and its bit-5 neighbours
                for _ in 0..6 {
                    let n = rg.gen_range(0..30);
                    hays.push((0..n).map(|_| { let b = pool[rg.gen_range(0..pool.len())]; if rg.gen_bool(0.3) { b ^ 0x20 } else { b } }).collect());
                }
                with_ctx(&mut out, &mut stats, &c, &mut |r, s| {
                    for h in &hays {
                        let sp = gen::random_span(&mut rg, h.len());
                        all_flavours(r, s, &c, f, h, sp);
                        all_flavours(r, s, &c, f, h, (0, h.len()));
                    }
                });
            }
        }
        // prefilters (C05): which variant was built (admissibility), direct
        // probes (soundness), and on/off differential on long haystacks
        "prefilter" => {
            let mut rg = gen::rng(seed, 0xCA11_0007);
            let maxhay = if scale > 1 { 300 } else { 120 };
            for i in 0..(42 * scale) {
                let pats = prefilter_lists(&mut rg, i);
                let mk = f.mks[rg.gen_range(0..f.mks.len())];
                let ci = i % 10 == 5 || i % 10 == 9 || (i % 10 == 8 && i % 20 == 8) || (i % 10 != 6 && rg.gen_range(0..5) == 0);
                let mut hays: Vec<Vec<u8>> =
                    (0..8).map(|_| gen::random_hay(&mut rg, &pats, ci, maxhay)).collect();
                hays.extend(gen::stale_hays(&mut rg, &pats, 2));
                if ci {
                    // every occurrence in the other case as a whole
                    for k in 0..3.min(hays.len()) {
                        let mut u = hays[k].clone(); u.make_ascii_uppercase(); hays.push(u);
                        let mut l = hays[k].clone(); l.make_ascii_lowercase(); hays.push(l);
                    }
                }
                let spans: Vec<(usize, usize)> =
                    hays.iter().map(|h| gen::random_span(&mut rg, h.len())).collect();
                // low-level with prefilter: probes + searches
                for repr in ["nc", "c", "dfa"] {
                    let mut c = Ctx::new(&pats, mk, repr);
                    c.ci = ci;
                    c.pre = true;
                    with_ctx(&mut out, &mut stats, &c, &mut |r, s| {
                        for (h, &sp) in hays.iter().zip(spans.iter()) {
                            ev_probe(r, s, h, (0, h.len()));
                            all_flavours(r, s, &c, f, h, (0, h.len()));
                            r.flush(h, (0, h.len()));
                            if sp.0 <= sp.1 {
                                ev_probe(r, s, h, sp);
                            }
                            all_flavours(r, s, &c, f, h, sp);
                        }
                        // a span that ends inside an occurrence, with nothing else in it
                        for h in hays.iter().filter(|h| h.len() >= 40).take(3) {
                            let p = &pats[0];
                            if p.len() < 2 { continue; }
                            let filler = *[b'_', b'~', 0x01].iter().find(|b| !pats.iter().any(|q| q.contains(b))).unwrap_or(&b'_');
                            let mut h2 = vec![filler; h.len()];
                            let end = h.len() - 5;
                            let kk = 1 + (h.len() % (p.len() - 1));
                            for j in 0..p.len() {
                                let pos = end as isize - kk as isize + j as isize;
                                if pos >= 0 && (pos as usize) < h2.len() { h2[pos as usize] = p[j]; }
                            }
                            ev_probe(r, s, &h2, (2, end));
                            all_flavours(r, s, &c, f, &h2, (2, end));
                        }
                    });
                }
                // top-level on/off differential
                for pre in [true, false] {
                    let mut c = Ctx::new(&pats, mk, ["top-auto", "top-nc", "top-c", "top-dfa"][i % 4]);
                    c.ci = ci;
                    c.pre = pre;
                    with_ctx(&mut out, &mut stats, &c, &mut |r, s| {
                        for (h, &sp) in hays.iter().zip(spans.iter()) {
                            all_flavours(r, s, &c, f, h, (0, h.len()));
                            all_flavours(r, s, &c, f, h, sp);
                        }
                    });
                }
            }
        }
        // bounded work (C19): counters of transitions and failure steps
        "work" => {
            let mut rg = gen::rng(seed, 0xCA11_0008);
            // small exhaustive part (exact counts are compared with the model)
            let hays = gen::all_hays(b"ab", 4);
            for (pi, pats) in gen::family(b"ab", 2, 3).iter().enumerate() {
                if pi % (if scale > 1 { 2 } else { 6 }) != 0 {
                    continue;
                }
                for &mk in &f.mks {
                    for repr in ["nc", "c", "dfa"] {
                        let c = Ctx::new(pats, mk, repr);
                        with_ctx(&mut out, &mut stats, &c, &mut |r, s| {
                            for h in &hays {
                                for an in [false, true] {
                                    ev_work_find(r, s, &c, h, (0, h.len()), an, false);
                                }
                                if mk == "std" {
                                    ev_work_overlap(r, s, &c, h, (0, h.len()), false);
                                    ev_work_overlap(r, s, &c, h, (0, h.len()), true);
                                }
                                r.flush(h, (0, h.len()));
                            }
                        });
                    }
                }
            }
            for i in 0..(12 * scale) {
                let (pats, hays) = work_cases(&mut rg, i, scale > 1);
                for &mk in &f.mks {
                    for repr in ["nc", "c", "dfa", "top-auto"] {
                        for pre in [false, true] {
                            let mut c = Ctx::new(&pats, mk, repr);
                            c.ci = i % 5 == 3;
                            c.pre = pre;
                            c.dd = if i % 2 == 0 { -1 } else { 0 };
                            with_ctx(&mut out, &mut stats, &c, &mut |r, s| {
                                for h in &hays {
                                    let sp = (rg.gen_range(0..=h.len() / 4), h.len() - rg.gen_range(0..=h.len() / 4));
                                    for an in [false, true] {
                                        ev_work_find(r, s, &c, h, sp, an, false);
                                        ev_work_find(r, s, &c, h, sp, an, true);
                                    }
                                    if mk == "std" {
                                        ev_work_overlap(r, s, &c, h, sp, false);
                                        if supported(&c, true) {
                                            ev_work_overlap(r, s, &c, h, sp, true);
                                        }
                                    }
                                    // long haystacks are not repeated in the trace: only the
                                    // span bounds matter for the work bound
                                    r.flush_nohay(h.len(), sp);
                                }
                            });
                        }
                    }
                }
            }
        }
        // states with many outgoing transitions (encoding thresholds of the contiguous NFA
        // and DFA rows): every child byte is searched through every kind (C04, C16)
        "fans" => {
            let fans: Vec<usize> = if scale > 1 { vec![1, 2, 3, 4, 5, 126, 127, 128, 129, 252, 253, 254, 255, 256] } else { vec![127, 128, 253, 254, 255, 256] };
            for (fi, &fan) in fans.iter().enumerate() {
                for (prefix, dds) in [(&b"q"[..], vec![0i64, 1]), (&b"xyz"[..], vec![-1, 0, 3])] {
                    let pats: Pats = (0..fan).map(|b| { let mut p = prefix.to_vec(); p.push(b as u8); p }).collect();
                    let hays: Vec<Vec<u8>> = (0..=255u8).step_by(if scale > 1 { 1 } else { 3 }).chain([0u8, 1, 125, 126, 127, 128, 252, 253, 254, 255]).map(|b| { let mut h = prefix.to_vec(); h.push(b); h.push(b'!'); h }).collect();
                    for &mk in &f.mks {
                        if mk == "ll" && scale < 2 { continue; }
                        for repr in ["nc", "c", "dfa", "top-auto"] {
                            for &dd in &dds {
                                for bc in [true, false] {
                                    if repr != "c" && (dd != dds[0] || !bc) { continue; }
                                    let mut c = Ctx::new(&pats, mk, repr);
                                    c.dd = dd;
                                    c.bc = bc;
                                    c.pre = fi % 2 == 0;
                                    with_ctx(&mut out, &mut stats, &c, &mut |r, s| {
                                        for h in &hays {
                                            ev_find(r, s, h, (0, h.len()), false, false);
                                            ev_recipe(r, s, h);
                                            if mk == "std" { ev_overlap_iter(r, s, h, (0, h.len())); }
                                            r.flush(h, (0, h.len()));
                                        }
                                    });
                                }
                            }
                        }
                    }
                }
            }
        }
        other => panic!("unknown calls family {}", other),
    }
    out.finish();
    stats
}

#[allow(dead_code)]
pub fn unused(_r: &mut StdRng) {}
