---------------------------- MODULE TraceStream ----------------------------
(***************************************************************************)
(* Trace validation of REAL stream searches / replacements against the     *)
(* actions of ACStream (B3 for streams; C07, C08, C18).                    *)
(*                                                                         *)
(* IOEnv.TRACE: ndjson from `acverif stream`.  A "stream" line is one run  *)
(* of try_stream_replace_all_with (mode "replace") or of StreamFindIter    *)
(* (mode "find") with a scripted reader, a recording writer/closure and a  *)
(* chosen buffer capacity; `ops` is everything that was observable, in     *)
(* order.  Each op is matched by exactly one ACStream action taken from    *)
(* the current state with the logged values bound (read size, free space   *)
(* offered, chunk bytes, match); Scan / RollFill (and, for StreamFindIter, *)
(* the non-match chunks it drops) are silent.  All invariants of ACStream  *)
(* are evaluated in every state of the replay.                             *)
(*                                                                         *)
(* A run whose next op no action can explain prints REJECT and the walk    *)
(* moves on to the next run, so one TLC run lists every rejected run.      *)
(***************************************************************************)
EXTENDS ACStream, Json, IOUtils

Rec == ndJsonDeserialize(IOEnv.TRACE)
Stripes == 16

VARIABLES t,    \* index of the run being replayed
          l,    \* index of the next op of that run
          wpend \* io::Write::write_all in progress: the bytes the writer has not accepted yet
tvars == <<vars, t, l, wpend>>

Max2(a, b) == IF a >= b THEN a ELSE b
IsRun(tt) == tt <= Len(Rec) /\ Rec[tt].ev = "stream"
E == Rec[t]
Ops == IF IsRun(t) THEN E.ops ELSE <<>>
Mode == IF IsRun(t) THEN E.mode ELSE "none"

Reject(why) ==
    PrintT("REJECT " \o ToJson([line |-> t, call |-> l, ev |-> "stream", why |-> why]))

CfgOf(tt) ==
    IF IsRun(tt)
    THEN LET e == Rec[tt]  c == Rec[e.c].ctx
             mn == Max2(1, MaxLenOf(c.pats)) IN
         [pats |-> c.pats, ci |-> c.ci, stream |-> e.stream, min |-> mn,
          cap |-> IF e.cap = 0 THEN Max2(8 * mn, 65536) ELSE Max2(e.cap, mn + 1)]
    ELSE [pats |-> <<<<1>>>>, ci |-> FALSE, stream |-> <<>>, min |-> 1, cap |-> 2]

OrcOf(c) == IterOracle(c.pats, "std", c.stream, 0, Len(c.stream), c.ci, FALSE)

TInit ==
    /\ t \in 1..(IF Len(Rec) < Stripes THEN Len(Rec) ELSE Stripes)
    /\ l = 1
    /\ cfg = CfgOf(t)
    /\ pc = (IF IsRun(t) THEN "top" ELSE "skip")
    /\ buf = <<>> /\ rpos = 0 /\ readany = FALSE
    /\ sid = Root /\ apos = 0 /\ bpos = 0 /\ rep = 0
    /\ outpos = 0 /\ nm = 0 /\ last = NoEmit /\ eofseen = FALSE /\ faults = 0
    /\ orc = OrcOf(CfgOf(t)) /\ ftype = "none" /\ wpend = <<>>

LoadNext ==
    /\ (t + Stripes > Len(Rec)) => PrintT("DONE " \o ToJson([stripe |-> t]))
    /\ t' = t + Stripes /\ l' = 1
    /\ cfg' = CfgOf(t + Stripes)
    /\ pc' = (IF IsRun(t + Stripes) THEN "top" ELSE "skip")
    /\ buf' = <<>> /\ rpos' = 0 /\ readany' = FALSE
    /\ sid' = Root /\ apos' = 0 /\ bpos' = 0 /\ rep' = 0
    /\ outpos' = 0 /\ nm' = 0 /\ last' = NoEmit /\ eofseen' = FALSE /\ faults' = 0
    /\ orc' = OrcOf(CfgOf(t + Stripes)) /\ ftype' = "none" /\ wpend' = <<>>

HasOp(k) == l <= Len(Ops) /\ Ops[l][1] = k
ToM3(o) == <<o[2] + 1, o[3], o[4]>>

EmitAction == MatchChunk \/ PreRoll \/ Eof

(* The writer is driven through io::Write::write_all: one emission of the    *)
(* specification is one write_all, which calls Write::write until every byte *)
(* has been accepted.  Ops of the writer:                                    *)
(*   ["w", bytes]      offered `bytes`, accepted all of them                 *)
(*   ["ws", bytes, n]  ... accepted only the first n (0 < n < Len(bytes))     *)
(*   ["wintr", bytes]  ... failed with ErrorKind::Interrupted (write_all      *)
(*                     retries: nothing was accepted, nothing is lost)       *)
(*   ["wfail", bytes]  ... failed for good                                   *)
(* The FIRST write call of a write_all is explained by the emitting action   *)
(* (its chunk = the bytes offered); what the writer did not accept is kept   *)
(* in wpend, and every further call must offer exactly wpend.                *)
IsW(o) == o[1] \in {"w", "ws", "wintr", "wfail"}
RestOf(o) ==
    CASE o[1] = "ws" -> SubSeq(o[2], o[3] + 1, Len(o[2]))
      [] o[1] = "wintr" -> o[2]
      [] OTHER -> <<>>
Cont(o) == o[1] \in {"w", "ws", "wintr"}    \* the write_all carries on / completed

(* steps nobody outside can see *)
Silent ==
    /\ wpend = <<>>
    /\ \/ Scan
       \/ RollFill
       \/ Eof /\ pc' = "done"
       \/ Mode = "find" /\ EmitAction /\ last'.kind = "n" /\ outpos' # outpos /\ pc' # "failed"
       \* the caller polls StreamFindIter again after it yielded an error
       \/ Mode = "find" /\ l <= Len(Ops) /\ l > 1 /\ Ops[l - 1][1] = "yerr" /\ Repoll
       \* table replacement: an empty replacement is written with zero write calls
       \/ Mode = "table" /\ MatchChunk /\ last'.kind = "m" /\ nm' = nm + 1 /\ pc' # "failed"
            /\ E.R[last'.mat[1]] = <<>>
    /\ UNCHANGED <<t, l, wpend>>

OpStep ==
    /\ l <= Len(Ops)
    /\ LET o == Ops[l] IN
       \/ /\ wpend = <<>> /\ wpend' = <<>>
          /\ \/ /\ o[1] = "r" /\ Read /\ pc' # "failed"
                /\ Free = o[2]                      \* the slice offered to Read::read
                /\ rpos' = rpos + o[3]              \* what the reader returned
                /\ o[3] = 0 => eofseen'
             \/ /\ o[1] = "rfail" /\ Read /\ pc' = "failed" /\ Free = o[2]
             \/ /\ o[1] = "m" /\ Mode = "replace" /\ MatchChunk /\ pc' # "failed"
                /\ last'.kind = "m" /\ nm' = nm + 1 /\ last'.mat = ToM3(o) /\ last'.bytes = o[5]
             \/ /\ o[1] = "mfail" /\ Mode = "replace" /\ MatchChunk /\ pc' = "failed"
                /\ last'.kind = "m" /\ nm' = nm + 1 /\ last'.mat = ToM3(o) /\ last'.bytes = o[5]
             \/ /\ o[1] = "y" /\ Mode = "find" /\ MatchChunk /\ pc' # "failed"
                /\ last'.kind = "m" /\ nm' = nm + 1 /\ last'.mat = ToM3(o)
             \/ /\ o[1] = "yerr" /\ Mode = "find" /\ pc = "failed" /\ UNCHANGED vars
       \* the first write call of a write_all: a non-match chunk ...
       \/ /\ wpend = <<>> /\ IsW(o) /\ Mode \in {"replace", "table"}
          /\ EmitAction /\ last'.kind = "n" /\ outpos' # outpos /\ last'.bytes = o[2]
          /\ (pc' = "failed") <=> (o[1] = "wfail")
          /\ wpend' = RestOf(o)
       \* ... or (table variant) a replacement
       \/ /\ wpend = <<>> /\ IsW(o) /\ Mode = "table"
          /\ MatchChunk /\ last'.kind = "m" /\ nm' = nm + 1 /\ o[2] = E.R[last'.mat[1]] /\ o[2] # <<>>
          /\ (pc' = "failed") <=> (o[1] = "wfail")
          /\ wpend' = RestOf(o)
       \* a further write call of the same write_all
       \/ /\ wpend # <<>> /\ IsW(o) /\ o[2] = wpend /\ wpend' = RestOf(o)
          /\ IF Cont(o) THEN UNCHANGED vars
             ELSE /\ pc' = "failed" /\ ftype' = "write" /\ faults' = faults + 1
                  /\ UNCHANGED <<orc, cfg, buf, rpos, readany, sid, apos, bpos, rep, outpos, nm, last, eofseen>>
    /\ l' = l + 1 /\ UNCHANGED t

Step == Silent \/ OpStep

(* a run that replays a behaviour generated by TLC (GenStream) carries what  *)
(* the specification said would happen: the end, the number of matches and  *)
(* the number of stream bytes produced (B4)                                 *)
ExpectOK ==
    "expect" \in DOMAIN E =>
        /\ E.expect.end = E.end
        /\ E.expect.matches = nm
        /\ (Mode = "replace" => E.expect.out = outpos)

EndOK ==
    /\ ExpectOK
    /\ wpend = <<>>            \* a write_all is never abandoned half-way without an error
    /\ CASE E.end = "ok" -> pc = "done"
         [] E.end = "err" -> pc = "failed"
         [] OTHER -> FALSE          \* "panic" / "rejected" are never allowed

(* all ops explained and nothing silent left to do: compare the way it ended *)
Finish ==
    /\ pc # "skip" /\ l = Len(Ops) + 1 /\ ~ENABLED Silent
    /\ IF EndOK THEN TRUE
       ELSE Reject("run ended with " \o E.end \o " but the specification is at pc = " \o pc)
    /\ LoadNext

(* the next op cannot be explained by any action from this state *)
Stuck ==
    /\ pc # "skip" /\ l <= Len(Ops) /\ ~ENABLED Step
    /\ Reject("no action of ACStream explains op " \o ToString(Ops[l]) \o " at pc = " \o pc
              \o " (buffer " \o ToString(buf) \o ", pos " \o ToString(bpos)
              \o ", reported " \o ToString(rep) \o ", write_all pending " \o ToString(wpend) \o ")")
    /\ LoadNext

(* lines that are not runs: context lines and whole-output records (the latter are *)
(* checked by TraceStreamContract)                                                *)
Skip ==
    /\ pc = "skip" /\ t <= Len(Rec)
    /\ LoadNext

TNext == Step \/ Finish \/ Stuck \/ Skip
TSpec == TInit /\ [][TNext]_tvars

(* ACStream's invariants, guarded for the padding states *)
TChunkConcat == pc # "skip" => ChunkConcat
TMatchPrefix == pc # "skip" => MatchPrefix
TComplete == pc # "skip" => Complete
TIndices == pc # "skip" => Indices
TNoFalseEof == pc # "skip" => NoFalseEof
TEofOnly == pc # "skip" => EofOnlyWhenReaderSaysSo

=============================================================================
