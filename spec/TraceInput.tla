----------------------------- MODULE TraceInput -----------------------------
(***************************************************************************)
(* Validation of recorded `Input` histories (acverif inputops) against     *)
(* ACInput.  One line per history:                                         *)
(*  {"ev":"input","len":n,"ops":[[name,a,b,out,st,en,done,an,ea,found],..]} *)
(* `out`,`st`,`en`,`done`,`an`,`ea` are what the real Input reported after  *)
(* the operation; `found` is what a search for the empty pattern with that  *)
(* configuration returned ("s..e", "none", "err ..", "panic ..": always a string): it must be the empty match at  *)
(* the span start unless the configuration is done.                         *)
(***************************************************************************)
EXTENDS ACInput, TLC, Json, IOUtils

Rec == ndJsonDeserialize(IOEnv.TRACE)
Stripes == 32

VARIABLE l
tvars == <<l, cfg, last>>   \* cfg/last (ACInput) are not used by the replay: frozen
TInit == l \in 1..(IF Len(Rec) < Stripes THEN Len(Rec) ELSE Stripes) /\ cfg = Fresh(0) /\ last = "ok"
TNext == l + Stripes <= Len(Rec) /\ l' = l + Stripes /\ UNCHANGED <<cfg, last>>
TSpec == TInit /\ [][TNext]_tvars

Reject(k, why) == PrintT("REJECT " \o ToJson([line |-> l, call |-> k, ev |-> "input", why |-> why]))

RECURSIVE Replay(_, _, _)
Replay(c, ops, k) ==
    IF k > Len(ops) THEN TRUE
    ELSE LET o == ops[k]
             r == Apply(c, <<o[1], o[2], o[3]>>)
             n == r.c
         IN  /\ o[4] = r.out \/ Reject(k, "outcome of " \o o[1] \o ": expected " \o r.out \o ", observed " \o o[4])
             /\ (o[5] = n.st /\ o[6] = n.en) \/ Reject(k, "span after " \o o[1] \o " differs from the model")
             /\ o[7] = IsDone(n) \/ Reject(k, "is_done after " \o o[1] \o " differs from the model")
             /\ (o[8] = n.an /\ o[9] = n.ea) \/ Reject(k, "flags after " \o o[1] \o " differ from the model")
             /\ (IF IsDone(n) THEN o[10] = "none" ELSE o[10] = ToString(n.st) \o ".." \o ToString(n.st))
                   \/ Reject(k, "empty-pattern search with the configuration after " \o o[1] \o " is not the empty match at the span start")
             /\ Replay(n, ops, k + 1)

Valid == LET E == Rec[l] IN
    IF E.ev = "input" THEN Replay(Fresh(E.len), E.ops, 1) ELSE Reject(0, "unknown event")
=============================================================================
