------------------------------ MODULE ACSearch ------------------------------
(***************************************************************************)
(* The non-overlapping search of src/automaton.rs: try_find_fwd and        *)
(* try_find_fwd_imp, one action per block the code treats as a unit.       *)
(*                                                                         *)
(*   Begin   is_done check, earliest := standard \/ input.earliest,        *)
(*           prefilter dropped for anchored searches                       *)
(*   Start   start state; a matching start state records its first match   *)
(*           (and returns it in earliest mode)                             *)
(*   Probe0  the prefilter call before the loop                            *)
(*   Step    one iteration of `while at < input.end()`:                    *)
(*           next_state, then the special-state case analysis              *)
(*   Probe   the prefilter call made when the automaton is back in its     *)
(*           (non-matching) start state                                    *)
(*                                                                         *)
(* The prefilter is abstract: every probe may answer with ANY candidate    *)
(* that is sound for the probed span (SoundCands).  So `Correct` shows the *)
(* loop is right for every sound prefilter; ACPrefilter shows that each    *)
(* concrete prefilter variant is sound, and conformance checks show that   *)
(* the real prefilters answer within SoundCands.                           *)
(*                                                                         *)
(* Counters `trans` (automaton transitions) and `fails` (failure links     *)
(* followed inside next_state) carry the C19 work bound.                   *)
(***************************************************************************)
EXTENDS ACRun, TLC

CONSTANTS Sigma,      \* model alphabet (set of bytes)
          MaxPats,    \* pattern lists have 1..MaxPats patterns (0 allowed too)
          MaxPatLen,  \* patterns have 0..MaxPatLen bytes
          MaxHay,     \* haystacks have 0..MaxHay bytes
          Kinds,      \* subset of {"std","lf","ll"}
          CIs,        \* subset of BOOLEAN
          Anchs,      \* subset of BOOLEAN
          Earlies,    \* subset of BOOLEAN
          Pres        \* subset of BOOLEAN: search with an (abstract) prefilter

VARIABLES cfg,    \* the call: [pats, kind, ci, hay, s, e, an, early, pre]
          pc, sid, at, mat, res, trans, fails
vars == <<cfg, pc, sid, at, mat, res, trans, fails>>

SeqsUpTo(S, n) == UNION {[1..k -> S] : k \in 0..n}

P == IF cfg.ci THEN FoldAll(cfg.pats) ELSE cfg.pats   \* what the trie is built from
K == cfg.kind
H == cfg.hay
Early == K = "std" \/ cfg.early
ByteAt(o) == Feed(H[o + 1], cfg.ci)

(* A prefilter exists only if no pattern is empty and there is a pattern;  *)
(* it is not used by anchored searches.                                    *)
PreAllowed(pats) == Len(pats) > 0 /\ \A k \in 1..Len(pats) : Len(pats[k]) > 0
PreActive == cfg.pre /\ ~cfg.an

(* ---- sound prefilter answers for the span a..b --------------------------*)
(* <<"none">> | <<"match", m>> | <<"possible", i>>                          *)
NoOccBefore(a, b, i) ==
    \A j \in a..(i - 1) : j <= b => PatsAt(cfg.pats, H, j, b, cfg.ci) = {}
SoundCands(a, b) ==
    (IF \A j \in a..b : PatsAt(cfg.pats, H, j, b, cfg.ci) = {}
        THEN {<<"none">>} ELSE {})
    \cup {<<"possible", i>> : i \in {j \in a..b : NoOccBefore(a, b, j)}}
    \cup (LET m == FindOracle(cfg.pats, K, H, a, b, cfg.ci, FALSE) IN
          IF m # None THEN {<<"match", m>>} ELSE {})
CandPos(c) == IF c[1] = "match" THEN c[2][2] ELSE c[2]   \* Candidate::into_option

Init ==
    /\ \E pats \in SeqsUpTo(SeqsUpTo(Sigma, MaxPatLen), MaxPats), kind \in Kinds, ci \in CIs :
            cfg = [pats |-> pats, kind |-> kind, ci |-> ci, hay |-> <<>>,
                   s |-> 0, e |-> 0, an |-> FALSE, early |-> FALSE, pre |-> FALSE]
    /\ pc = "call" /\ sid = Root /\ at = 0 /\ mat = None /\ res = None
    /\ trans = 0 /\ fails = 0

(* the environment issues one call on the searcher (all calls are explored) *)
Call ==
    /\ pc = "call"
    /\ \E hay \in SeqsUpTo(Sigma, MaxHay), an \in Anchs, early \in Earlies :
         \E e \in 0..Len(hay) : \E s \in 0..(e + 1) :
         \E pre \in (IF PreAllowed(cfg.pats) THEN Pres ELSE {FALSE}) :
            /\ cfg' = [cfg EXCEPT !.hay = hay, !.s = s, !.e = e, !.an = an,
                                  !.early = early, !.pre = pre]
            /\ at' = s
    /\ pc' = "begin"
    /\ UNCHANGED <<sid, mat, res, trans, fails>>

Finish(r) == pc' = "done" /\ res' = r

Begin ==
    /\ pc = "begin"
    /\ IF cfg.s > cfg.e                      \* input.is_done()
       THEN Finish(None) /\ UNCHANGED <<sid, at, mat>>
       ELSE pc' = "start" /\ UNCHANGED <<sid, at, mat, res>>
    /\ UNCHANGED <<cfg, trans, fails>>

Start ==
    /\ pc = "start"
    /\ sid' = Root /\ at' = cfg.s
    /\ IF IsMatchState(P, K, Root)
       THEN /\ mat' = GetMatch(P, K, Root, 1, cfg.s)
            /\ IF Early THEN Finish(mat')
               ELSE pc' = (IF PreActive THEN "probe0" ELSE "loop") /\ UNCHANGED res
       ELSE /\ mat' = None
            /\ pc' = (IF PreActive THEN "probe0" ELSE "loop") /\ UNCHANGED res
    /\ UNCHANGED <<cfg, trans, fails>>

Probe0 ==
    /\ pc = "probe0"
    /\ \E c \in SoundCands(cfg.s, cfg.e) :
         CASE c[1] = "none"     -> Finish(None) /\ UNCHANGED at
           [] c[1] = "match"    -> Finish(c[2]) /\ UNCHANGED at
           [] c[1] = "possible" -> at' = c[2] /\ pc' = "loop" /\ UNCHANGED res
    /\ UNCHANGED <<cfg, sid, mat, trans, fails>>

Step ==
    /\ pc = "loop"
    /\ IF at >= cfg.e
       THEN Finish(mat) /\ UNCHANGED <<sid, at, mat, trans, fails>>
       ELSE LET b == ByteAt(at)
                n == Nxt(P, K, cfg.an, sid, b)
            IN
            /\ sid' = n
            /\ trans' = trans + 1
            /\ fails' = fails + (IF cfg.an THEN 0 ELSE FailSteps(P, K, sid, b))
            /\ IF n = DEAD THEN Finish(mat) /\ UNCHANGED <<at, mat>>
               ELSE IF IsMatchState(P, K, n)
               THEN LET m == GetMatch(P, K, n, 1, at + 1) IN
                    IF ~(cfg.an /\ m[2] > cfg.s)
                    THEN /\ mat' = m
                         /\ IF Early THEN Finish(m) /\ UNCHANGED at
                            ELSE at' = at + 1 /\ UNCHANGED <<pc, res>>
                    ELSE at' = at + 1 /\ UNCHANGED <<pc, res, mat>>
               ELSE IF n = Root /\ PreActive
               THEN pc' = "probe" /\ UNCHANGED <<at, mat, res>>
               ELSE at' = at + 1 /\ UNCHANGED <<pc, res, mat>>
    /\ UNCHANGED cfg

Probe ==
    /\ pc = "probe"
    /\ \E c \in SoundCands(at, cfg.e) :
         IF c[1] = "none" THEN Finish(None) /\ UNCHANGED at
         ELSE /\ at' = (IF CandPos(c) > at THEN CandPos(c) ELSE at + 1)
              /\ pc' = "loop" /\ UNCHANGED res
    /\ UNCHANGED <<cfg, sid, mat, trans, fails>>

Next == Call \/ Begin \/ Start \/ Probe0 \/ Step \/ Probe
Spec == Init /\ [][Next]_vars

(* ------------------------------ properties ------------------------------ *)
Oracle == FindOracle(cfg.pats, K, H, cfg.s, cfg.e, cfg.ci, cfg.an)

(* C01, C02, C09, C11, C05 (every sound prefilter), C14 *)
Correct ==
    pc = "done" =>
        IF cfg.early /\ K # "std"
        THEN EarliestOK(cfg.pats, K, H, cfg.s, cfg.e, cfg.ci, cfg.an, res)
        ELSE res = Oracle

(* the step machine computes the function ACRun!FindRun (used by ACIter,    *)
(* ACReplace, ACStream for the searches they issue)                         *)
RunAgrees ==
    (pc = "done" /\ ~PreActive) =>
        res = FindRun(cfg.pats, K, cfg.ci, H, cfg.s, cfg.e, cfg.an, cfg.early)

(* C14: existence *)
IsMatchAgrees ==
    (pc = "done" /\ cfg.early) =>
        ((res # None) <=> IsMatchOracle(cfg.pats, H, cfg.s, cfg.e, cfg.ci, cfg.an))

(* C10/C15: every reported match lies inside the span *)
InSpan == res # None => res[2] >= cfg.s /\ res[3] <= cfg.e /\ res[2] <= res[3]

(* C19 *)
WorkBound ==
    /\ trans <= (IF cfg.s <= cfg.e THEN cfg.e - cfg.s ELSE 0)
    /\ pc \in {"loop", "probe", "done"} => trans <= at - cfg.s + (IF pc = "loop" THEN 0 ELSE 1)
    /\ fails + Depth(sid) <= trans
    /\ cfg.an => fails = 0
PositionMonotone == [][at' >= at /\ (pc = "loop" /\ pc' = "loop" => at' > at)]_vars

(* a skip is only ever taken from the start state, forward (C05 mechanism) *)
SkipOnlyFromStart == pc = "probe" => sid = Root /\ mat = None

(* the state the loop is in is the node the spec automaton is in: a suffix  *)
(* of the bytes consumed since the span start (or DEAD)                     *)
TypeOK == /\ pc \in {"call", "begin", "start", "probe0", "loop", "probe", "done"}
          /\ at >= cfg.s /\ (pc \notin {"call", "begin"} /\ cfg.s <= cfg.e => at <= cfg.e)

(* reachability witnesses (non-vacuity): each of these must be REACHABLE;    *)
(* `bin/check selftest` asserts that TLC finds its negation violated        *)
Reach_AnchoredFilter ==     \* an inherited match is ignored by an anchored search
    pc = "loop" /\ cfg.an /\ sid # DEAD /\ sid # Root /\ IsMatchState(P, K, sid)
    /\ GetMatch(P, K, sid, 1, at)[2] > cfg.s
Reach_PrefilterSkip ==      \* a prefilter candidate made the search jump ahead
    pc = "loop" /\ PreActive /\ trans < at - cfg.s
Reach_DeadAfterMatch ==     \* a leftmost search stopped in the dead state with a match in hand
    pc = "done" /\ sid = DEAD /\ res # None /\ K # "std"

(* structural lemmas about the automaton, on the same pattern lists *)
Lemmas == pc = "call" =>
    /\ FailShortens(P, K) /\ FailIsSuffix(P, K) /\ NoDupInM(P, K)

=============================================================================
