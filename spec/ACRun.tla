------------------------------- MODULE ACRun -------------------------------
(***************************************************************************)
(* try_find_fwd / try_find_fwd_imp WITHOUT a prefilter as a function of    *)
(* its arguments (the same case analysis as ACSearch!Step, run to          *)
(* completion).  ACSearch checks that its step machine computes exactly    *)
(* this function; ACIter, ACReplace and ACStream use it for the searches   *)
(* they issue.                                                             *)
(***************************************************************************)
EXTENDS ACAutomaton

RECURSIVE RunLoop(_, _, _, _, _, _, _, _, _, _, _)
RunLoop(P, K, ci, h, s, e, an, early, sid, at, mat) ==
    IF at >= e THEN mat
    ELSE LET n == Nxt(P, K, an, sid, Feed(h[at + 1], ci)) IN
         IF n = DEAD THEN mat
         ELSE IF IsMatchState(P, K, n)
         THEN LET m == GetMatch(P, K, n, 1, at + 1) IN
              IF ~(an /\ m[2] > s)
              THEN (IF early THEN m
                    ELSE RunLoop(P, K, ci, h, s, e, an, early, n, at + 1, m))
              ELSE RunLoop(P, K, ci, h, s, e, an, early, n, at + 1, mat)
         ELSE RunLoop(P, K, ci, h, s, e, an, early, n, at + 1, mat)

FindRun(pats, K, ci, h, s, e, an, earlyflag) ==
    IF s > e THEN None
    ELSE LET P == IF ci THEN FoldAll(pats) ELSE pats
             early == K = "std" \/ earlyflag
         IN
         IF IsMatchState(P, K, Root)
         THEN LET m0 == GetMatch(P, K, Root, 1, s) IN
              IF early THEN m0
              ELSE RunLoop(P, K, ci, h, s, e, an, early, Root, s, m0)
         ELSE RunLoop(P, K, ci, h, s, e, an, early, Root, s, None)

(* The same run with the C19 work counters: <<transitions, failure steps>>.  *)
RECURSIVE CostLoop(_, _, _, _, _, _, _, _, _, _, _, _)
CostLoop(P, K, ci, h, s, e, an, early, sid, at, tr, fl) ==
    IF at >= e THEN <<tr, fl>>
    ELSE LET b == Feed(h[at + 1], ci)
             n == Nxt(P, K, an, sid, b)
             f == IF an THEN 0 ELSE FailSteps(P, K, sid, b) IN
         IF n = DEAD THEN <<tr + 1, fl + f>>
         ELSE IF IsMatchState(P, K, n) /\ early
                 /\ ~(an /\ GetMatch(P, K, n, 1, at + 1)[2] > s)
         THEN <<tr + 1, fl + f>>
         ELSE CostLoop(P, K, ci, h, s, e, an, early, n, at + 1, tr + 1, fl + f)

FindCost(pats, K, ci, h, s, e, an, earlyflag) ==
    IF s > e THEN <<0, 0>>
    ELSE LET P == IF ci THEN FoldAll(pats) ELSE pats
             early == K = "std" \/ earlyflag IN
         IF IsMatchState(P, K, Root) /\ early THEN <<0, 0>>
         ELSE CostLoop(P, K, ci, h, s, e, an, early, Root, s, 0, 0)

=============================================================================
