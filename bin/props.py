#!/usr/bin/env python3
"""Per-property decision procedures (DESIGN.md section 6)."""
import json

import stages
from stages import (apalache_inductive, calls, events_trace, generated_streams, guard, harness_calls, mc, product,
                    steps, streams, tla_set)
from vlib import log, seed

ALLK = ["std", "lf", "ll"]


def search_consts(kinds, anchs, earlies, pres, big, cis=(False,), sigma=(1, 2)):
    return {
        "Sigma": tla_set(sigma),
        "MaxPats": 2,
        "MaxPatLen": 3 if big else 2,
        "MaxHay": 5 if big else 4,
        "Kinds": tla_set(kinds),
        "CIs": tla_set(cis),
        "Anchs": tla_set(anchs),
        "Earlies": tla_set(earlies),
        "Pres": tla_set(pres),
    }


SEARCH_INV = ["Correct", "IsMatchAgrees", "InSpan", "WorkBound", "SkipOnlyFromStart", "TypeOK",
              "Lemmas", "RunAgrees"]


def iter_consts(kinds, anchs, big, cis=(False,), sigma=(1, 2)):
    return {
        "Sigma": tla_set(sigma), "MaxPats": 2, "MaxPatLen": 3 if big else 2,
        "MaxHay": 5 if big else 4, "Kinds": tla_set(kinds), "CIs": tla_set(cis),
        "Anchs": tla_set(anchs),
    }


ITER_INV = ["IterCorrect", "StartValid", "AnchoredChain", "AnchoredStarts", "NonOverlapping"]


def overlap_consts(anchs, pres, big, cis=(False,), sigma=(1, 2)):
    return {
        "Sigma": tla_set(sigma), "MaxPats": 2, "MaxPatLen": 3 if big else 2,
        "MaxHay": 4, "Kinds": tla_set(["std"]), "CIs": tla_set(cis),
        "Anchs": tla_set(anchs), "Pres": tla_set(pres), "TailCalls": 2,
    }


def build_model(ck, name, kinds, thorough):
    """the imperative construction (BFS order, copy_matches, DEAD cut) refines ACAutomaton"""
    mc(ck, "ACBuild", name,
       {"Sigma": tla_set([97, 65, 98]), "MaxPats": 3 if thorough else 2, "MaxPatLen": 3,
        "Kinds": tla_set(kinds), "CIs": tla_set([False, True])},
       ["Refines", "FailSeenFirst", "QueueDepthSorted"])


def c01(ck, thorough):
    """leftmost-first / leftmost-longest find and iteration"""
    kinds = ["lf", "ll"]
    build_model(ck, "c01_build", kinds, thorough)
    mc(ck, "ACSearch", "c01_search", search_consts(kinds, [False], [False], [False], True),
       SEARCH_INV, ["PositionMonotone"])
    mc(ck, "ACIter", "c01_iter", iter_consts(kinds, [False], thorough), ITER_INV, ["Progress"])
    fams = ["f23", "chains", "rand:%d:10:6" % (400 if thorough else 60)] + (["f33"] if thorough else [])
    product(ck, "c01", fams, full=thorough, shards=4, mks=kinds)
    calls(ck, "c01_enum", "enum", scale=2 if thorough else 1, mks=kinds, an="no", flav="find,iter")
    calls(ck, "c01_rand", "rand", scale=10 if thorough else 2, mks=kinds, an="no", flav="find,iter")
    calls(ck, "c01_nested", "nested", scale=2 if thorough else 1, mks=kinds, an="no", flav="find,iter")
    ck.extra["rule"] = ("model: all pattern lists of <=2 patterns of <=3 bytes over a 2-letter alphabet x all "
                        "haystacks x all spans; implementation: product of every real automaton with the "
                        "spec automaton (all haystacks), calls validated against the declarative oracle")


def c02(ck, thorough):
    """standard semantics"""
    kinds = ["std"]
    mc(ck, "ACSearch", "c02_search", search_consts(kinds, [False], [False], [False], True),
       SEARCH_INV, ["PositionMonotone"])
    mc(ck, "ACIter", "c02_iter", iter_consts(kinds, [False], True), ITER_INV, ["Progress"])
    fams = ["f23", "chains", "rand:%d:10:6" % (400 if thorough else 60)] + (["f33"] if thorough else [])
    product(ck, "c02", fams, full=thorough, shards=4, mks=kinds)
    calls(ck, "c02_enum", "enum", scale=2, mks=kinds, an="no", flav="find,iter")
    calls(ck, "c02_rand", "rand", scale=30 if thorough else 2, mks=kinds, an="no", flav="find,iter")


def c03(ck, thorough):
    """overlapping search"""
    build_model(ck, "c03_build", ["std"], thorough)
    mc(ck, "ACOverlap", "c03_overlap", overlap_consts([False], [False, True], thorough),
       ["OverlapCorrect", "StateSane"], view="View")
    fams = ["f23", "rand:%d:10:6" % (400 if thorough else 60)] + (["f33"] if thorough else [])
    product(ck, "c03", fams + ["dups", "chains", "wide"], full=thorough, shards=4, mks=["std"])
    calls(ck, "c03_enum", "enum", scale=2, mks=["std"], an="no", flav="overlap")
    calls(ck, "c03_rand", "rand", scale=10 if thorough else 2, mks=["std"], an="no", flav="overlap")
    # every prefilter variant a standard searcher can carry, haystacks that lead back to the start state
    calls(ck, "c03_pre", "prefilter", scale=3 if thorough else 1, mks=["std"], an="no", flav="overlap")


def c04(ck, thorough):
    """representation independence: every representation is bisimilar to the same spec automaton"""
    # the contiguous NFA's state encoding, with its thresholds scaled down: decode(encode(s)) = s
    for nm, a, cs, ms in [("c04_repr2", 6, 2, 3), ("c04_repr4", 6 if not thorough else 7, 4, 5)]:
        mc(ck, "ACRepr", nm,
           {"A": a, "ChunkSize": cs, "MaxSparse": ms, "KindOne": ms + 1, "KindDense": ms + 2,
            "NextIds": "{3, 7}", "Pids": "{0, 1}", "MaxMatches": 3},
           ["LookupOK", "FailOK", "MatchesOK", "LenOK", "OneHasNoMatch"])
    # the whole contiguous automaton: states written one after the other (new id = offset), then
    # every id rewritten in place through index_to_state_id
    mc(ck, "ACContig", "c04_contig",
       {"A": 4, "ChunkSize": 2, "MaxSparse": 3, "KindOne": 4, "KindDense": 5, "NextIds": "{3}", "Pids": "{0}",
        "MaxMatches": 2, "N": 6 if thorough else 5},
       ["OrderKept", "SentinelsKept", "Tiling", "DecodeOK", "WalkOK"], spec="CSpec")
    # one DFA row filled from a sparse NFA state through the byte classes (sparse_iter)
    mc(ck, "ACDfaRow", "c04_dfarow", {"MaxByte": 6 if thorough else 5, "NextIds": "{3, 7}"},
       ["OncePerClass", "RowCorrect", "RepInClass", "ClassesRespectTransitions"])
    # the noncontiguous NFA's two copies of its transitions (link chain, class-indexed dense copy for
    # states within dense_depth), byte classes, start-state set-up: lookup = intended transition
    mc(ck, "ACStore", "c04_store",
       {"NB": 5 if thorough else 4, "MaxStates": 9 if thorough else 7,
        "DenseDepths": "{0, 1, 2, 3, 4}" if thorough else "{0, 1, 2, 3}", "CIs": tla_set([False, True])},
       ["ChainSorted", "StartChainsAligned", "LookupOK", "ChainLookupOKTrie", "ClassUniform",
        "PatternBytesAlone", "AnchoredMirror"])
    fams = ["f23", "ci", "shapes", "edge", "classes", "rand:%d:12:8" % (600 if thorough else 80)]
    if thorough:
        fams += ["f33", "ci3", "shapesbig", "classesbig"]
    product(ck, "c04", fams, full=True, shards=4, mks=ALLK)
    calls(ck, "c04_kinds", "kinds", scale=6 if thorough else 2, mks=ALLK, an="both", flav="all")
    calls(ck, "c04_fans", "fans", scale=2 if thorough else 1, mks=ALLK, an="no", flav="all")


def stream_consts(big, faults):
    return {"Sigma": tla_set([1, 2]), "MaxPats": 2, "MaxPatLen": 3 if big else 2,
            "MaxStream": 6 if big else 5, "CIs": tla_set([False]),
            "CapExtra": tla_set([1, 2, 3, 6]), "MaxFaults": 1 if faults else 0}


STREAM_INV = ["ChunkConcat", "MatchPrefix", "Complete", "Indices", "NoFalseEof",
              "EofOnlyWhenReaderSaysSo", "FailedIsPrefix"]


def c05(ck, thorough):
    """prefilter transparency"""
    mc(ck, "ACPrefilterMC", "c05_prefilter",
       {"Sigma": tla_set([97, 65, 98]), "MaxPats": 2, "MaxPatLen": 2,
        "MaxHay": 5 if thorough else 4, "Kinds": tla_set(ALLK), "CIs": tla_set([False, True])},
       ["AdmissibleIsSound"])
    sc = search_consts(ALLK, [False], [False, True], [True], False, sigma=(1, 2, 3) if thorough else (1, 2))
    mc(ck, "ACSearch", "c05_search", sc, SEARCH_INV, ["PositionMonotone"])
    mc(ck, "ACOverlap", "c05_overlap", overlap_consts([False], [True], thorough),
       ["OverlapCorrect", "StateSane"], view="View")
    calls(ck, "c05_prefilter", "prefilter", scale=4 if thorough else 1, mks=ALLK, an="both", flav="all")
    # every prefilter answer given during real searches is sound for the span it was asked about
    steps(ck, "c05", scale=4 if thorough else 1, mks=ALLK)


def c06(ck, thorough):
    """packed searchers"""
    if not thorough:
        mc(ck, "ACPacked", "c06_packed",
           {"Sigma": tla_set([0, 1, 2]), "NybbleBase": 2, "MaxPats": 2, "MaxPatLen": 2, "MaxHay": 4,
            "Vs": tla_set([2, 4]), "Bs": tla_set([2]), "Kinds": tla_set(["lf", "ll"])},
           ["PackedCorrect", "LoadInBounds", "MatchInSpan", "Coverage", "CarryAdjacent"], view="View")
    else:
        # longer haystacks (more windows, width-4 vectors without fallback) with short patterns ...
        mc(ck, "ACPacked", "c06_packed_a",
           {"Sigma": tla_set([0, 1, 2]), "NybbleBase": 2, "MaxPats": 2, "MaxPatLen": 2, "MaxHay": 6,
            "Vs": tla_set([2, 4]), "Bs": tla_set([2, 3]), "Kinds": tla_set(["lf", "ll"])},
           ["PackedCorrect", "LoadInBounds", "MatchInSpan", "Coverage", "CarryAdjacent"], view="View",
           timeout=6000)
        # ... and 3-byte fingerprints (carry over two bytes) on shorter ones
        mc(ck, "ACPacked", "c06_packed_b",
           {"Sigma": tla_set([0, 1, 2]), "NybbleBase": 2, "MaxPats": 1, "MaxPatLen": 4, "MaxHay": 7,
            "Vs": tla_set([2, 4]), "Bs": tla_set([2]), "Kinds": tla_set(["lf"])},
           ["PackedCorrect", "LoadInBounds", "MatchInSpan", "Coverage", "CarryAdjacent"], view="View",
           timeout=6000)
    calls(ck, "c06_packed", "all", scale=4 if thorough else 1, sub="packed")


def c07(ck, thorough):
    """stream search = in-memory search for every read schedule and capacity"""
    mc(ck, "ACStream", "c07_stream", stream_consts(thorough, False), STREAM_INV)
    # the buffer / chunk index arithmetic for EVERY capacity and pattern length (inductive invariant)
    apalache_inductive(ck, "ACBufferIdx", "c07_idx")
    generated_streams(ck, "c07_gen", maxstream=4 if thorough else 3, faults=False)
    streams(ck, "c07_enum", "enum", maxstream=5 if thorough else 4, sizes="1,2,3")
    streams(ck, "c07_rand", "rand", scale=12 if thorough else 2, long=True)


def c08(ck, thorough):
    """stream replacement reproduces the stream outside matches"""
    mc(ck, "ACStream", "c08_stream", stream_consts(thorough, False), STREAM_INV)
    apalache_inductive(ck, "ACBufferIdx", "c08_idx")
    generated_streams(ck, "c08_gen", maxstream=4 if thorough else 3, faults=False)
    streams(ck, "c08_enum", "enum", maxstream=5 if thorough else 4, sizes="1,2,4")
    streams(ck, "c08_rand", "rand", scale=12 if thorough else 2)


def c18(ck, thorough):
    """I/O failures surface as errors and never corrupt what was produced"""
    mc(ck, "ACStream", "c18_stream", stream_consts(thorough, True), STREAM_INV)
    generated_streams(ck, "c18_gen", maxstream=4 if thorough else 3, faults=True)
    streams(ck, "c18_enum", "enum", faults=True, maxstream=4 if thorough else 3, sizes="1,3")
    streams(ck, "c18_rand", "rand", faults=True, scale=12 if thorough else 2)


def c09(ck, thorough):
    """anchored searches"""
    mc(ck, "ACSearch", "c09_search", search_consts(ALLK, [True], [False, True], [False], True),
       SEARCH_INV, ["PositionMonotone"])
    mc(ck, "ACIter", "c09_iter", iter_consts(ALLK, [True], thorough), ITER_INV, ["Progress"])
    mc(ck, "ACOverlap", "c09_overlap", overlap_consts([True], [False], thorough),
       ["OverlapCorrect", "StateSane"], view="View")
    fams = ["f23", "chains", "rand:%d:10:6" % (600 if thorough else 40)]
    product(ck, "c09", fams, full=thorough, shards=4, mks=ALLK)
    calls(ck, "c09_enum", "enum", scale=2 if thorough else 1, mks=ALLK, an="yes", flav="all")
    calls(ck, "c09_rand", "rand", scale=30 if thorough else 2, mks=ALLK, an="yes", flav="all")
    calls(ck, "c09_nested", "nested", scale=2 if thorough else 1, mks=ALLK, an="yes", flav="all")


def c14(ck, thorough):
    """is_match / earliest"""
    mc(ck, "ACSearch", "c14_search",
       search_consts(ALLK, [False, True], [True], [False, True], thorough),
       SEARCH_INV, ["PositionMonotone"])
    calls(ck, "c14_enum", "enum", scale=2 if thorough else 1, mks=ALLK, an="both",
          flav="find,early,is_match")
    calls(ck, "c14_rand", "rand", scale=30 if thorough else 2, mks=ALLK, an="both",
          flav="find,early,is_match")
    calls(ck, "c14_nested", "nested", scale=2 if thorough else 1, mks=ALLK, an="both",
          flav="find,early,is_match")


def c15(ck, thorough):
    """no out-of-bounds access, no panic"""
    mc(ck, "ACPacked", "c15_packed",
       {"Sigma": tla_set([0, 1, 2]), "NybbleBase": 2, "MaxPats": 2, "MaxPatLen": 2,
        "MaxHay": 5 if thorough else 4, "Vs": tla_set([2, 4]), "Bs": tla_set([2]),
        "Kinds": tla_set(["lf"])},
       ["LoadInBounds", "MatchInSpan", "Coverage", "PackedCorrect"], view="View")
    guard(ck, "c15", scale=3 if thorough else 1)
    ck.extra["rule"] = ("every search/replace API and every packed variant on haystacks of length 0..104 placed flush "
                        "against a PROT_NONE page on the right and on the left, random and pattern-truncating contents")
    ck.assumptions.append("an out-of-bounds read of >= 1 byte beyond either end of the haystack faults; reads "
                          "that stay inside the two mapped pages but outside the slice are not observable")


def c17(ck, thorough):
    """purity / sharing across threads"""
    mc(ck, "ACShared", "c17_shared",
       {"Clients": "{1, 2, 3}" if thorough else "{1, 2}", "Sigma": tla_set([1, 2]), "MaxPatLen": 2,
        "MaxHay": 2 if not thorough else 1, "Kinds": tla_set(ALLK), "CallsPerClient": 1},
       ["Pure", "Deterministic"], ["Immutable"])
    harness_calls(ck, "c17_threads", "threads", scale=16 if thorough else 1, shards=6, what="threads")
    ck.extra["rule"] = ("2..16 real threads share one searcher (and clones), start on a barrier and run shuffled call "
                        "sequences; every result and the searcher's full Debug dump before/after are validated by TLC; "
                        "the same calls are repeated sequentially in another order interleaved with unrelated searches")
    ck.assumptions.append("schedules are whatever the OS produced on this run; absence of interior mutability in the "
                          "source is not proved (a textual scan is recorded as an observation only)")
    import subprocess
    scan = subprocess.run("grep -rnE 'Cell<|RefCell|Atomic|Mutex|RwLock|static mut|thread_local' /repo/src "
                          "--include=*.rs | grep -v '^/repo/src/verif.rs' | grep -v 'cfg(all(aho_corasick_verif' | wc -l",
                          shell=True, stdout=subprocess.PIPE, text=True).stdout.strip()
    ck.extra["interior_mutability_scan_hits_outside_hooks"] = int(scan or 0)


def c20(ck, thorough):
    """building and metadata"""
    # the packed builder's give-up logic: a searcher that is built holds every pattern at its input position
    mc(ck, "ACPackedBuilder", "c20_packedbuilder", {"Limit": 5 if thorough else 3, "MaxAdds": 12 if thorough else 8},
       ["IdsArePositions", "NeverBuiltWhenUnsupported"])
    events_trace(ck, "c20_build", "build", ["--scale", 2 if thorough else 1], "TraceApi", "TraceApiBuild.cfg",
                 "build", shards=8, sig_fields=("shape", "req", "mk", "sk"), distinct_drop=())
    harness_calls(ck, "c20_ids", "ids", scale=2 if thorough else 1, shards=8, what="pattern-ids")
    product(ck, "c20", ["f22", "shapes"], full=False, shards=2, mks=ALLK)
    ck.extra["rule"] = ("shape-diverse collections (none, only-empty, duplicates, all 256 bytes, 256-way fan-out, 300-byte "
                        "pattern, 100/101 patterns, nested, random; thorough: 3000x60 and 500x300) x requested kind x "
                        "match kind x start kind x 4 option combinations; metadata and requested kind validated by TLC")


def c16(ck, thorough):
    """low-level automaton contract"""
    # the special-state id layout after shuffling and the remapper's chain resolution
    mc(ck, "ACShuffle", "c16_shuffle", {"MaxStates": 12 if thorough else 10},
       ["RemapCorrect", "Layout", "SwapsArePermutations"])
    # the DFA with both start kinds: interleaved unanchored/anchored copies, remap tables, special ids
    mc(ck, "ACDfaBoth", "c16_dfaboth", {"MaxStates": 6 if thorough else 5, "Classes": 1, "Stride2": 1},
       ["TargetsOK", "LayoutOK", "FlatOK", "PremultOrderOK", "MatchSlotsOK"])
    mc(ck, "ACSearch", "c16_search", search_consts(ALLK, [False], [False], [False], False),
       SEARCH_INV, ["PositionMonotone"])
    fams = ["f23", "ci", "shapes", "edge", "rand:%d:12:8" % (600 if thorough else 80)]
    product(ck, "c16", fams, full=True, shards=4, mks=ALLK)
    calls(ck, "c16_recipe", "recipe", scale=6 if thorough else 1, mks=ALLK, an="no", flav="find")
    calls(ck, "c16_fans", "fans", scale=2 if thorough else 1, mks=ALLK, an="no", flav="all")


def c10(ck, thorough):
    """span locality"""
    mc(ck, "ACBaseMC", "c10_oracle",
       {"Sigma": tla_set([1, 2]), "MaxPats": 2, "MaxPatLen": 2, "MaxHay": 5 if thorough else 4,
        "Kinds": tla_set(ALLK), "CIs": tla_set([False])},
       ["SpanLocal", "OutsideIrrelevant", "MatchesInSpan", "Consistent"])
    mc(ck, "ACSearch", "c10_search", search_consts(ALLK, [False, True], [False], [False, True], thorough),
       SEARCH_INV, ["PositionMonotone"])
    calls(ck, "c10_span", "span", scale=8 if thorough else 1, mks=ALLK, an="both", flav="all")
    # the span a search sees is whatever the Input setters left behind: Input as a state machine
    mc(ck, "ACInput", "c10_input", {"MaxLen": 4 if thorough else 3, "MaxArg": 6 if thorough else 5},
       ["SpanInBounds", "DoneIsOnePast"], ["LenFixed", "PanicKeeps", "FlagsKept"], min_states=100)
    events_trace(ck, "c10_inputops", "inputops", ["--scale", 8 if thorough else 1], "TraceInput", "TraceInput.cfg",
                 "input-history", shards=4)


def ci_consts(d, big=False):
    d = dict(d)
    d["Sigma"] = tla_set([97, 65, 98, 64] if big else [97, 65, 64])
    d["CIs"] = tla_set([True])
    d["MaxPatLen"] = 2
    d["MaxHay"] = 3
    return d


def c11(ck, thorough):
    """ASCII case-insensitivity"""
    mc(ck, "ACSearch", "c11_search",
       ci_consts(search_consts(ALLK, [False, True], [False], [False, True], False), thorough),
       SEARCH_INV, ["PositionMonotone"])
    mc(ck, "ACIter", "c11_iter", ci_consts(iter_consts(ALLK, [False], False), thorough), ITER_INV, ["Progress"])
    mc(ck, "ACOverlap", "c11_overlap", ci_consts(overlap_consts([False, True], [False], False), thorough),
       ["OverlapCorrect", "StateSane"], view="View")
    product(ck, "c11", ["ci", "ci3"] if thorough else ["ci"], full=True, shards=4, mks=ALLK)
    calls(ck, "c11_ci", "ci", scale=4 if thorough else 1, mks=ALLK, an="both", flav="all")


def c12(ck, thorough):
    """replace_all"""
    mc(ck, "ACReplace", "c12_bytes",
       {"Sigma": tla_set([1, 2]), "MaxPats": 2, "MaxPatLen": 2, "MaxHay": 4, "Kinds": tla_set(ALLK),
        "CIs": tla_set([False]), "Strs": tla_set([False]), "ReplSet": '"bytes"',
        "MaxStop": 2},
       ["ReplaceCorrect", "SlicesOnBoundaries", "OutputUtf8"], ["LastMonotone"])
    # &str variant: 'a' and the two bytes of U+00E9; byte patterns may split the character
    mc(ck, "ACReplace", "c12_str",
       {"Sigma": tla_set([97, 195, 169]), "MaxPats": 2, "MaxPatLen": 2,
        "MaxHay": 5 if thorough else 4, "Kinds": tla_set(ALLK),
        "CIs": tla_set([False]), "Strs": tla_set([True]), "ReplSet": '"str"',
        "MaxStop": 1},
       ["ReplaceCorrect", "SlicesOnBoundaries", "OutputUtf8"], ["LastMonotone"])
    calls(ck, "c12_replace", "replace", scale=12 if thorough else 1, mks=ALLK, an="no", flav="all")


def c13(ck, thorough):
    """rejection depends only on configuration: the whole finite matrix, every kind"""
    events_trace(ck, "c13_matrix", "matrix", [], "TraceApi", "TraceApi.cfg", "rejection-matrix",
                 sig_fields=("api", "mk", "sk", "an", "empty", "kind"),
                 distinct_drop=("shape", "hay"))
    ck.extra["exhaustive"] = True
    ck.extra["rule"] = ("every cell of 21 entry points x 3 match kinds x 3 start kinds x anchoring x "
                        "empty-pattern, executed for 4 automaton kinds x 3 pattern lists x 3 haystacks; "
                        "TLC checks each against ACApi!Outcome and that no cell is missing")


def c19(ck, thorough):
    """bounded work per haystack byte"""
    mc(ck, "ACSearch", "c19_search",
       search_consts(ALLK, [False, True], [False, True], [False, True], thorough),
       SEARCH_INV, ["PositionMonotone"])
    calls(ck, "c19_work", "work", scale=3 if thorough else 1, mks=ALLK, an="both", flav="all")
    # every transition of every recorded search with its offset: strictly increasing, inside the span
    steps(ck, "c19", scale=4 if thorough else 1, mks=ALLK)
    # stream searches: every stream byte is fed to the automaton at most once (rolls included)
    streams(ck, "c19_stream", "rand", scale=6 if thorough else 1, work=True)
    streams(ck, "c19_streamenum", "enum", maxstream=3, sizes="1,2", work=True)


CHECKS = {
    "C01": (c01, "model_checking"),
    "C02": (c02, "model_checking"),
    "C03": (c03, "model_checking"),
    "C04": (c04, "model_checking"),
    "C05": (c05, "model_checking"),
    "C06": (c06, "model_checking"),
    "C07": (c07, "model_checking"),
    "C08": (c08, "model_checking"),
    "C09": (c09, "model_checking"),
    "C10": (c10, "model_checking"),
    "C11": (c11, "model_checking"),
    "C12": (c12, "model_checking"),
    "C13": (c13, "model_checking"),
    "C19": (c19, "model_checking"),
    "C14": (c14, "model_checking"),
    "C15": (c15, "exploration"),
    "C16": (c16, "model_checking"),
    "C17": (c17, "exploration"),
    "C20": (c20, "exploration"),
    "C18": (c18, "model_checking"),
}


def replay(pid, path):
    """Re-run the check that produced a replay file (the checks are
    deterministic for a given VERIF_SEED, so this reproduces the case)."""
    with open(path) as f:
        r = json.load(f)
    log("replaying %s: %s" % (path, r.get("what")))
    from vlib import Check
    fn, level = CHECKS[pid]
    ck = Check(pid, "quick", level)
    fn(ck, False)
    return ck.finish()


def selftest():
    """Binding / teeth demonstrations: each must be DETECTED. Exit 0 iff all are."""
    import os
    import shutil
    import subprocess
    from vlib import BIN, SPEC, WORK, build_harness, run_harness, run_tlc, workdir, read_ndjson_line
    build_harness()
    wd = workdir("selftest")
    results = {}

    # 1. flip one transition of a real dump -> the product exploration must find the pair
    pre = os.path.join(wd, "d")
    run_harness(["dump", "--families", "f22", "--out", pre, "--shards", 1, "--mks", "std"])
    lines = open(pre + ".0.ndjson").read().splitlines()
    d = json.loads(lines[200])
    st = d["states"][d["startU"] - 1]
    st["rowU"][0] = (st["rowU"][0] % len(d["states"])) + 1
    lines[200] = json.dumps(d)
    open(pre + ".bad.ndjson", "w").write("\n".join(lines) + "\n")
    r = run_tlc("Prod", os.path.join(SPEC, "Prod.cfg"), "st_prod", env={"DUMP": pre + ".bad.ndjson"}, workers=4)
    results["corrupted dump entry reported by Prod"] = any(
        x["ctx"] == 201 and not x["kind"].startswith("drift") for x in r.tagged("DISAGREE"))

    # 2. change one recorded result -> TraceCalls must reject that line
    pre = os.path.join(wd, "c")
    run_harness(["calls", "--family", "rand", "--out", pre, "--shards", 1, "--mks", "lf", "--an", "no",
                 "--flav", "find"])
    lines = open(pre + ".0.ndjson").read().splitlines()
    idx = next(i for i, l in enumerate(lines) if '"multi"' in l and '"find",false,false,"ok",[' in l
               and '"ok",[]' not in l)
    e = json.loads(lines[idx])
    for c in e["calls"]:
        if c[0] == "find" and c[4]:
            c[4][2] += 1
            break
    lines[idx] = json.dumps(e)
    open(pre + ".bad.ndjson", "w").write("\n".join(lines) + "\n")
    r = run_tlc("TraceCalls", os.path.join(SPEC, "TraceCalls.cfg"), "st_calls",
                env={"TRACE": pre + ".bad.ndjson"}, workers=2)
    results["corrupted call result rejected by TraceCalls"] = any(x["line"] == idx + 1 for x in r.tagged("REJECT"))

    # 3. corrupt the free space of a recorded read, drop the closure calls of another run
    pre = os.path.join(wd, "s")
    run_harness(["stream", "--family", "enum", "--out", pre, "--shards", 1, "--maxstream", 3, "--sizes", "1,2"])
    lines = open(pre + ".0.ndjson").read().splitlines()
    done = set()
    want = {}
    for i, l in enumerate(lines):
        e = json.loads(l)
        if e.get("ev") != "stream" or e["mode"] != "replace" or e["end"] != "ok":
            continue
        if "read" not in done and any(o[0] == "r" and o[2] > 0 for o in e["ops"]):
            next(o for o in e["ops"] if o[0] == "r")[1] += 1
            lines[i] = json.dumps(e)
            done.add("read")
            want["read"] = i + 1
        elif "drop" not in done and any(o[0] == "m" for o in e["ops"]):
            e["ops"] = [o for o in e["ops"] if o[0] != "m"]
            lines[i] = json.dumps(e)
            done.add("drop")
            want["drop"] = i + 1
        if len(done) == 2:
            break
    open(pre + ".bad.ndjson", "w").write("\n".join(lines) + "\n")
    r = run_tlc("TraceStream", os.path.join(SPEC, "TraceStream.cfg"), "st_stream",
                env={"TRACE": pre + ".bad.ndjson"}, workers=2)
    rej = {x["line"] for x in r.tagged("REJECT")}
    results["corrupted read size / dropped closure events rejected by TraceStream"] = \
        want["read"] in rej and want["drop"] in rej

    r = run_tlc("TraceStreamContract", os.path.join(SPEC, "TraceStreamContract.cfg"), "st_streamc",
                env={"TRACE": pre + ".bad.ndjson"}, workers=2)
    rejc = {x["line"] for x in r.tagged("REJECT")}
    results["dropped closure events rejected by TraceStreamContract (a changed read size alone is not)"] = \
        want["drop"] in rejc and want["read"] not in rejc

    # 3b. search steps: swap two transition offsets of one run, make a prefilter answer of another skip a match
    pre = os.path.join(wd, "p")
    run_harness(["steps", "--out", pre, "--shards", 1, "--scale", 1, "--mks", "lf"])
    lines = open(pre + ".0.ndjson").read().splitlines()
    done = set()
    want = {}
    for i, l in enumerate(lines):
        e = json.loads(l)
        if e.get("ev") != "run" or e["out"] != "ok":
            continue
        ts = [k for k, o in enumerate(e["ops"]) if o[0] == "T"]
        if "swap" not in done and len(ts) >= 3:
            e["ops"][ts[0]], e["ops"][ts[1]] = e["ops"][ts[1]], e["ops"][ts[0]]
            lines[i] = json.dumps(e)
            done.add("swap")
            want["swap"] = i + 1
        elif "skip" not in done and e["res"] and e["ops"] and e["ops"][0][0] == "P" and e["ops"][0][1] == 2 \
                and e["res"][1] + 1 < e["e"]:
            e["ops"][0][2] = e["res"][1] + 1          # "possible start" just after the real match's start
            lines[i] = json.dumps(e)
            done.add("skip")
            want["skip"] = i + 1
        if len(done) == 2:
            break
    open(pre + ".bad.ndjson", "w").write("\n".join(lines) + "\n")
    r = run_tlc("TraceSearch", os.path.join(SPEC, "TraceSearch.cfg"), "st_steps",
                env={"TRACE": pre + ".bad.ndjson"}, workers=2, deque=True)
    rej = {x["line"] for x in r.tagged("REJECT")}
    results["non-monotone transition offsets / a prefilter answer that skips a match rejected by TraceSearch"] = \
        want.get("swap") in rej and want.get("skip") in rej

    # 4. the guard pages are armed
    p = subprocess.run([BIN, "guard", "--out", os.path.join(wd, "g"), "--shards", "1", "--poke", "true"],
                       stdout=subprocess.PIPE, stderr=subprocess.PIPE)
    cur = json.load(open(os.path.join(wd, "g.current")))
    results["read one byte past a flush-right haystack kills the child and is attributed"] = \
        p.returncode == -11 and cur.get("poke") is True

    # 4b. a call into the code under test that never returns ends the harness with exit code 97
    p = subprocess.run([BIN, "hang", "--out", os.path.join(wd, "h"), "--shards", "1"], stdout=subprocess.PIPE,
                       stderr=subprocess.PIPE, text=True, env=dict(os.environ, ACVERIF_CALL_LIMIT_S="1"), timeout=60)
    results["a call that never returns is noticed by the harness monitor and attributed"] = \
        p.returncode == 97 and "HANG" in p.stderr and "selftest" in p.stderr

    # 5. the model has teeth: un-repair F1 in a scratch copy of the specification
    sd = os.path.join(wd, "spec")
    shutil.copytree(SPEC, sd)
    a = open(os.path.join(sd, "ACAutomaton.tla")).read()
    a2 = a.replace("THEN (IF Leftmostish(K) /\\ RootMatches(P, K) THEN DEAD ELSE Root)\n         ELSE Walk",
                   "THEN Root\n         ELSE Walk")
    assert a != a2
    open(os.path.join(sd, "ACAutomaton.tla"), "w").write(a2)
    cfg = stages.write_cfg("st_model", constants=search_consts(["lf"], [False], [False], [False], False),
                           invariants=["Correct"])
    p = subprocess.run(["java", "-Xss512m", "-cp", "/opt/veriftools/tla/tla2tools.jar:/opt/veriftools/tla/CommunityModules-deps.jar",
                        "tlc2.TLC", "-workers", "8", "-metadir", os.path.join(wd, "md"), "-noGenerateSpecTE",
                        "-config", cfg, "ACSearch.tla"], cwd=sd, stdout=subprocess.PIPE, stderr=subprocess.STDOUT, text=True)
    results["un-repaired F1 in the specification violates ACSearch!Correct"] = "Invariant Correct is violated" in p.stdout

    # 6. vacuity: with TLC's coverage statistics, every action of every operational module
    #    is taken in at least one of the configurations the quick checks use
    import glob
    import re
    cfgs = sorted(glob.glob(os.path.join(WORK, "cfg_c*.cfg"))) if os.environ.get("SELFTEST_COVERAGE", "1") == "1" else []
    taken = {}
    mods = {"search": "ACSearch", "iter": "ACIter", "overlap": "ACOverlap", "stream": "ACStream",
            "packed": "ACPacked", "build": "ACBuild", "shared": "ACShared", "shuffle": "ACShuffle",
            "bytes": "ACReplace", "str": "ACReplace"}
    for cfg in cfgs:
        key = os.path.basename(cfg)[4:-4].split("_")[-1]
        if key not in mods:
            continue
        mod = mods[key]
        p = subprocess.run(["java", "-Xss512m", "-Xmx12g", "-cp", "/opt/veriftools/tla/tla2tools.jar:/opt/veriftools/tla/CommunityModules-deps.jar",
                            "tlc2.TLC", "-workers", "12", "-coverage", "1", "-metadir", os.path.join(wd, "covmd"), "-cleanup",
                            "-noGenerateSpecTE", "-config", cfg, mod + ".tla"], cwd=SPEC, stdout=subprocess.PIPE,
                           stderr=subprocess.STDOUT, text=True, timeout=3000)
        for m in re.finditer(r"^<(\w+) line \d+, col \d+ to line \d+, col \d+ of module (\w+)>: (\d+):(\d+)", p.stdout, re.M):
            if m.group(2) == mod and m.group(1) != "Init":
                taken[(mod, m.group(1))] = max(taken.get((mod, m.group(1)), 0), int(m.group(4)))
    never = sorted(k for k, v in taken.items() if v == 0)
    results["every action of every operational module is taken in some quick configuration (%d actions)" % len(taken)] = \
        ((len(taken) > 20 and not never) or not cfgs)
    if never:
        log("never taken: %s" % never)

    # 7. named branch witnesses are reachable (TLC must find the NEGATED witness violated)
    wit = [("ACSearch", search_consts(ALLK, [False, True], [False], [False, True], True),
            ["Reach_AnchoredFilter", "Reach_PrefilterSkip", "Reach_DeadAfterMatch"]),
           ("ACStream", stream_consts(False, True),
            ["Reach_RollWithMatchAcross", "Reach_PreRollChunk", "Reach_FailedAfterOutput"])]
    for mod, consts, names in wit:
        for nm in names:
            neg = "Not_" + nm
            mtext = open(os.path.join(SPEC, mod + ".tla")).read()
            wdir = os.path.join(wd, "wit_" + nm)
            shutil.copytree(SPEC, wdir)
            open(os.path.join(wdir, mod + ".tla"), "w").write(
                mtext.replace("=" * 77, neg + " == ~" + nm + "\n" + "=" * 77))
            cfg = stages.write_cfg("wit_" + nm, constants=consts, invariants=[neg])
            p = subprocess.run(["java", "-Xss512m", "-Xmx12g", "-cp", "/opt/veriftools/tla/tla2tools.jar:/opt/veriftools/tla/CommunityModules-deps.jar",
                                "tlc2.TLC", "-workers", "12", "-metadir", os.path.join(wd, "witmd"), "-cleanup",
                                "-noGenerateSpecTE", "-config", cfg, mod + ".tla"], cwd=wdir, stdout=subprocess.PIPE,
                               stderr=subprocess.STDOUT, text=True, timeout=3000)
            results["witness %s!%s is reachable" % (mod, nm)] = ("Invariant %s is violated" % neg) in p.stdout
            shutil.rmtree(wdir, ignore_errors=True)

    # 8. Input state machine: a done configuration is reachable (witness), and a recorded setter
    #    history with one corrupted field (the span end after the first step) is rejected
    cfg = stages.write_cfg("st_input_wit", constants={"MaxLen": 2, "MaxArg": 4}, invariants=["NeverDone"])
    p = subprocess.run(["java", "-cp", "/opt/veriftools/tla/tla2tools.jar:/opt/veriftools/tla/CommunityModules-deps.jar",
                        "tlc2.TLC", "-workers", "4", "-metadir", os.path.join(wd, "inmd"), "-cleanup", "-noGenerateSpecTE",
                        "-config", cfg, "ACInput.tla"], cwd=SPEC, stdout=subprocess.PIPE, stderr=subprocess.STDOUT, text=True)
    results["witness ACInput: a done configuration is reachable"] = "Invariant NeverDone is violated" in p.stdout
    pre = os.path.join(wd, "input")
    run_harness(["inputops", "--out", pre, "--shards", 1, "--seed", seed()])
    lines = open(pre + ".0.ndjson").read().splitlines()[:200]
    for tag, corrupt in (("good", False), ("bad", True)):
        f = os.path.join(wd, "input_%s.ndjson" % tag)
        with open(f, "w") as fh:
            for i, ln in enumerate(lines):
                ev = json.loads(ln)
                if corrupt and i == 7:
                    ev["ops"][0][5] += 1
                fh.write(json.dumps(ev) + "\n")
        p = subprocess.run(["java", "-Xss512m", "-cp", "/opt/veriftools/tla/tla2tools.jar:/opt/veriftools/tla/CommunityModules-deps.jar",
                            "tlc2.TLC", "-workers", "1", "-metadir", os.path.join(wd, "inmd2"), "-cleanup", "-noGenerateSpecTE",
                            "-config", "TraceInput.cfg", "TraceInput.tla"], cwd=SPEC, env=dict(os.environ, TRACE=f),
                           stdout=subprocess.PIPE, stderr=subprocess.STDOUT, text=True)
        nrej = p.stdout.count("REJECT ")
        if corrupt:
            results["a setter history with a corrupted span end is rejected (line 8)"] = nrej >= 1 and '\\"line\\":8' in p.stdout
        else:
            results["the uncorrupted setter histories are accepted"] = nrej == 0 and "No error has been found" in p.stdout

    ok = all(results.values())
    for k, v in results.items():
        log(("DETECTED  " if v else "MISSED    ") + k)
    os.makedirs(os.path.join(os.path.dirname(SPEC), "evidence"), exist_ok=True)
    json.dump({"selftest": results, "all_detected": ok},
              open(os.path.join(os.path.dirname(SPEC), "evidence", "selftest.json"), "w"), indent=1)
    return 0 if ok else 1
