----------------------------- MODULE TraceCalls -----------------------------
(***************************************************************************)
(* B2 - call-level trace validation.                                       *)
(*                                                                         *)
(* IOEnv.TRACE names an ndjson file recorded by the harness from the REAL  *)
(* code: "ctx" lines describe a built searcher, every other line is one    *)
(* public API call with its arguments and its observed result, and refers  *)
(* to its context line by the field c.  The searcher is immutable (C17),   *)
(* so each call is validated on its own against the declarative oracle of  *)
(* ACBase.  The lines are walked in STRIPES stripes so that all TLC        *)
(* workers share one file.                                                 *)
(*                                                                         *)
(* A line the specification does not allow prints                          *)
(*     REJECT {"line":..,"ev":..,"why":..}                                 *)
(* and the walk continues, so a single run lists every rejected line.      *)
(***************************************************************************)
EXTENDS ACPrefilter, ACRun, TLC, Json, IOUtils

Rec == ndJsonDeserialize(IOEnv.TRACE)
Stripes == 64

VARIABLE l
vars == <<l>>

Init == l \in 1..(IF Len(Rec) < Stripes THEN Len(Rec) ELSE Stripes)
Next == l + Stripes <= Len(Rec) /\ l' = l + Stripes
Spec == Init /\ [][Next]_vars

Reject(j, ev, why) ==
    PrintT("REJECT " \o ToJson([line |-> l, call |-> j, ev |-> ev, why |-> why]))

ToM(r) == IF r = <<>> THEN None ELSE <<r[1] + 1, r[2], r[3]>>
ToMs(rs) == [j \in 1..Len(rs) |-> ToM(rs[j])]

(* A "multi" line E holds the calls made on one (haystack, span) of one     *)
(* context C = Rec[E.c].  A call is <<kind, anchored, earliest, outcome,    *)
(* result, extra>>.                                                         *)
CK(c) == c[1]   CAn(c) == c[2]   CEarly(c) == c[3]   COut(c) == c[4]
CRes(c) == c[5] CX(c) == c[6]

(* the oracle-level statement for each kind of call ------------------------ *)
FindOK(C, E, c) ==
    LET P == C.ctx.pats  K == C.ctx.mk  ci == C.ctx.ci
        r == ToM(CRes(c)) IN
    IF CEarly(c) /\ K # "std"
    THEN EarliestOK(P, K, E.hay, E.s, E.e, ci, CAn(c), r)
    ELSE r = FindOracle(P, K, E.hay, E.s, E.e, ci, CAn(c))

IsMatchOK(C, E, c) ==
    CRes(c) = IsMatchOracle(C.ctx.pats, E.hay, E.s, E.e, C.ctx.ci, CAn(c))

IterOK(C, E, c) ==
    ToMs(CRes(c)) = IterOracle(C.ctx.pats, C.ctx.mk, E.hay, E.s, E.e, C.ctx.ci, CAn(c))

OverlapIterOK(C, E, c) ==
    ToMs(CRes(c)) = OverlapOracle(C.ctx.pats, E.hay, E.s, E.e, C.ctx.ci, CAn(c))

(* stepwise: res = <<matches until the first None, the calls after it>>     *)
OverlapStepOK(C, E, c) ==
    /\ ToMs(CRes(c)[1]) = OverlapOracle(C.ctx.pats, E.hay, E.s, E.e, C.ctx.ci, CAn(c))
    /\ \A j \in 1..Len(CRes(c)[2]) : CRes(c)[2][j] = <<>>

ReplaceOK(C, E, c) ==
    LET x == CX(c) IN
    /\ CRes(c) = ReplaceOracle(C.ctx.pats, C.ctx.mk, E.hay, C.ctx.ci, x.R, x.stop, x.str)
    /\ x.str => IsUtf8(CRes(c))

(* C15: every reported match is well formed and inside the span *)
WellFormed(C, E, r) ==
    r = <<>> \/ (/\ r[1] >= 0 /\ r[1] < Len(C.ctx.pats)
                 /\ r[2] <= r[3] /\ r[3] <= Len(E.hay)
                 /\ r[2] >= E.s /\ r[3] <= E.e)

(* ---- prefilters (C05) ---- *)
Drift(j, why) == PrintT("DRIFT " \o ToJson([line |-> l, call |-> j, why |-> why]))
ToCand(r) == IF r[1] = "match" THEN <<"match", ToM(r[2])>> ELSE r
PfSet(C) == {C.pfi.bytes[x] : x \in 1..Len(C.pfi.bytes)}
ModelCand(C, E) ==
    LET P == C.ctx.pats  v == C.pfi.variant IN
    CASE v = "start" -> CandStart(PfSet(C), E.hay, E.s, E.e)
      [] v = "rare" -> CandRare(PfSet(C), P, C.ctx.ci, E.hay, E.s, E.e)
      [] v = "memmem" -> CandMemmem(P, E.hay, E.s, E.e)
      [] v = "packed" -> CandPacked(P, C.ctx.mk, E.hay, E.s, E.e)
      [] OTHER -> <<"unknown">>
ProbeOK(C, E, j, c) ==
    LET cand == ToCand(CRes(c)) IN
    /\ Sound(C.ctx.pats, C.ctx.mk, C.ctx.ci, E.hay, E.s, E.e, cand)
          \/ Reject(j, "probe", "the prefilter's answer is unsound for this span: " \o ToString(cand))
    /\ cand = ModelCand(C, E)
          \/ Drift(j, "prefilter candidate " \o ToString(cand) \o " differs from the model's "
                        \o ToString(ModelCand(C, E)))
(* which prefilter was built: none when a pattern is empty (required);      *)
(* otherwise it should be one of the admissible ones (drift if not)         *)
PfBuiltOK(E) ==
    LET P == E.ctx.pats  v == E.pfi.variant  S == {E.pfi.bytes[x] : x \in 1..Len(E.pfi.bytes)} IN
    \* (with an empty pattern every offset starts a match, so any prefilter would be
    \* useless; building one anyway is not forbidden by a property: drift)
    /\ (~PrefilterPossible(P) => v = "none")
          \/ Drift(0, "a prefilter was built although a pattern is empty")
    /\ (CASE v = "none" -> TRUE
           [] v = "start" -> AdmStart(S, P, E.ctx.ci)
           [] v = "rare" -> AdmRare(S, P, E.ctx.ci)
           [] v = "memmem" -> AdmMemmem(P, E.ctx.ci)
           [] v = "packed" -> AdmPacked(P, E.ctx.mk, E.ctx.ci)
           [] OTHER -> FALSE)
          \/ Drift(0, "the prefilter that was built is not one the model considers admissible: "
                        \o ToString(E.pfi))

(* ---- bounded work (C19) ---- *)
WorkOK(C, E, j, c) ==
    LET x == CX(c)  w == CRes(c)
        span == IF E.e >= E.s THEN E.e - E.s ELSE 0
        isdfa == C.kind = "dfa" IN
    /\ w.trans <= span
          \/ Reject(j, "work", "more automaton transitions than bytes in the span: " \o ToString(w.trans))
    /\ w.fails <= w.trans
          \/ Reject(j, "work", "more failure-link traversals than transitions: " \o ToString(<<w.fails, w.trans>>))
    /\ (isdfa => w.fails = 0)
          \/ Reject(j, "work", "a DFA followed failure links")
    /\ (x.api = "find" /\ "haylen" \notin DOMAIN E /\ (CAn(c) \/ ~C.ctx.pre)) =>
          LET m == FindCost(C.ctx.pats, C.ctx.mk, C.ctx.ci, E.hay, E.s, E.e, CAn(c), CEarly(c)) IN
          (w.trans = m[1] /\ (isdfa \/ w.fails = m[2]))
             \/ Drift(j, "work counters " \o ToString(<<w.trans, w.fails>>) \o " differ from the model's " \o ToString(m))

CallOK(C, E, j) ==
    LET c == E.calls[j]  k == CK(c) IN
    IF COut(c) # "ok"
    THEN Reject(j, k, "call did not succeed: " \o COut(c) \o " " \o ToString(CRes(c)))
    ELSE CASE k = "find" ->
                 /\ WellFormed(C, E, CRes(c)) \/ Reject(j, k, "malformed match")
                 /\ FindOK(C, E, c) \/ Reject(j, k, "result differs from the oracle")
           [] k = "is_match" -> IsMatchOK(C, E, c) \/ Reject(j, k, "is_match differs")
           [] k = "iter" -> IterOK(C, E, c) \/ Reject(j, k, "iteration differs")
           [] k = "overlap_iter" -> OverlapIterOK(C, E, c) \/ Reject(j, k, "overlapping iteration differs")
           [] k = "overlap_step" -> OverlapStepOK(C, E, c) \/ Reject(j, k, "stepwise overlapping differs")
           [] k = "probe" -> ProbeOK(C, E, j, c)
           [] k = "work" -> WorkOK(C, E, j, c)
           \* representation, not behaviour: no property fixes it, so a difference is drift
           [] k = "debug_eq" -> CRes(c)[1] = CRes(c)[2]
                              \/ Drift(j, "the top-level searcher's Debug dump differs from that of the low-level automaton built with the same options")
           [] k = "same" -> CRes(c)[1] = TRUE
                              \/ Reject(j, k, "the searcher's table changed while it was being searched")
           [] k = "occ" ->
                 \* hay is pattern CX(c) itself, searched anchored: the match must be a genuine
                 \* occurrence whose id names a pattern that really is there (C20); for small
                 \* collections it must be exactly the oracle's answer
                 LET r == ToM(CRes(c)) IN
                 /\ IsOccurrence(C.ctx.pats, E.hay, E.s, E.e, C.ctx.ci, TRUE, r)
                       \/ Reject(j, k, "the reported pattern id does not occur at the reported span")
                 /\ (Len(C.ctx.pats) > 200
                       \/ r = FindOracle(C.ctx.pats, C.ctx.mk, E.hay, E.s, E.e, C.ctx.ci, TRUE))
                       \/ Reject(j, k, "pattern identifier differs from the oracle")
           [] k = "recipe" ->
                 LET o == FindOracle(C.ctx.pats, C.ctx.mk, E.hay, 0, Len(E.hay), C.ctx.ci, FALSE) IN
                 /\ ToM(CRes(c)[1]) = o \/ Reject(j, k, "the documented caller-written loop differs from the oracle")
                 /\ ToM(CRes(c)[2]) = o \/ Reject(j, k, "the built-in search differs from the oracle")
           [] k = "replace" -> ReplaceOK(C, E, c) \/ Reject(j, k, "replacement differs")
           [] OTHER -> Reject(j, k, "unknown call")

EventOK(E) ==
    IF E.ev = "ctx" THEN /\ E.built \/ Reject(0, "ctx", "build failed: " \o E.err)
                         /\ E.built => PfBuiltOK(E)
    ELSE IF E.ev = "multi" THEN \A j \in 1..Len(E.calls) : CallOK(Rec[E.c], E, j)
    ELSE Reject(0, E.ev, "unknown event")

(* always TRUE; rejections are printed *)
Valid == EventOK(Rec[l])

=============================================================================
