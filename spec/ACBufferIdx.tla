---------------------------- MODULE ACBufferIdx ----------------------------
(***************************************************************************)
(* The index arithmetic of the stream search (util/buffer.rs Buffer +      *)
(* automaton.rs StreamChunkIter) with everything but the integers          *)
(* abstracted away, for ARBITRARY pattern length bound `min`, capacity     *)
(* `cap` > min, stream length and read sizes.  ACStream checks the same    *)
(* machine with real bytes and a real automaton for small constants (TLC); *)
(* here an inductive invariant is discharged by Apalache, so the bounds    *)
(*      0 <= reported <= pos <= len <= cap,                                *)
(*      every match chunk starts inside the buffer and not before what was *)
(*      already reported,                                                  *)
(*      a refill always has room (no false end of stream)                  *)
(* hold for every capacity and every pattern length, not only the explored *)
(* ones.                                                                   *)
(*                                                                         *)
(* The automaton is abstracted by `depth` = length of the longest pattern  *)
(* prefix the current state stands for: each byte raises it by at most 1,  *)
(* it never exceeds `min`, a match found in a state has length <= depth,   *)
(* and reporting a match resets it to 0.                                   *)
(***************************************************************************)
EXTENDS Integers

VARIABLES
    \* @type: Int;
    min,      \* longest pattern (>= 1)
    \* @type: Int;
    cap,      \* buffer capacity (> min)
    \* @type: Int;
    len,      \* valid bytes in the buffer
    \* @type: Int;
    pos,      \* buffer_pos
    \* @type: Int;
    rep,      \* buffer_reported_pos
    \* @type: Int;
    depth,    \* see above
    \* @type: Int;
    mlen,     \* length of the match the current (match) state reports; 0 = not a match state
    \* @type: Bool;
    ended,    \* the end-of-stream chunk has been emitted
    \* @type: Bool;
    readany,  \* Buffer::fill's local
    \* @type: Str;
    pc        \* "top" | "fill" | "eof" | "done"

vars == <<min, cap, len, pos, rep, depth, mlen, ended, readany, pc>>

Init ==
    /\ min \in Int /\ cap \in Int
    /\ min >= 1 /\ cap > min
    /\ len = 0 /\ pos = 0 /\ rep = 0 /\ depth = 0 /\ mlen = 0 /\ ended = FALSE /\ readany = FALSE
    /\ pc = "top"

(* get_non_match_chunk / get_match_chunk *)
MatchChunk ==
    /\ pc = "top" /\ mlen > 0
    /\ IF pos - mlen > rep
       THEN rep' = pos - mlen /\ UNCHANGED <<mlen, depth>>       \* the text before the match
       ELSE rep' = pos /\ mlen' = 0 /\ depth' = 0                 \* the match; sid := start
    /\ UNCHANGED <<min, cap, len, pos, ended, readany, pc>>

(* the for loop over buf[buffer_pos..]: k bytes; it stops after the byte that *)
(* enters a match state (m > 0) or at the end of the buffer                   *)
Scan ==
    /\ pc = "top" /\ mlen = 0 /\ pos < len /\ ~ended
    /\ \E k \in Int : \E d \in Int : \E m \in Int :
            /\ 1 <= k /\ k <= len - pos
            /\ 0 <= d /\ d <= min /\ d <= depth + k     \* at most one level deeper per byte
            /\ 0 <= m /\ m <= d                          \* a match is a suffix of what the state stands for
            /\ (m = 0 => k = len - pos)
            /\ pos' = pos + k /\ depth' = d /\ mlen' = m
    /\ UNCHANGED <<min, cap, len, rep, ended, readany, pc>>

SatSub(a, b) == IF a >= b THEN a - b ELSE 0

PreRoll ==
    /\ pc = "top" /\ mlen = 0 /\ pos >= len
    /\ rep < SatSub(len, min)
    /\ rep' = SatSub(len, min)
    /\ UNCHANGED <<min, cap, len, pos, depth, mlen, ended, readany, pc>>

RollFill ==
    /\ pc = "top" /\ mlen = 0 /\ pos >= len
    /\ ~(rep < SatSub(len, min))
    /\ IF len >= min
       THEN pos' = min /\ rep' = rep - (len - min) /\ len' = min
       ELSE UNCHANGED <<pos, rep, len>>
    /\ pc' = "fill" /\ readany' = FALSE
    /\ UNCHANGED <<min, cap, depth, mlen, ended>>

Read ==
    /\ pc = "fill"
    /\ \/ /\ ~ended
          /\ \E n \in Int :
               /\ 1 <= n /\ n <= cap - len
               /\ len' = len + n /\ readany' = TRUE
               /\ pc' = IF len + n >= min THEN "top" ELSE "fill"
       \/ /\ pc' = (IF readany THEN "top" ELSE "eof")      \* the reader returned 0
          /\ UNCHANGED <<len, readany>>
    /\ UNCHANGED <<min, cap, pos, rep, depth, mlen, ended>>

Eof ==
    /\ pc = "eof"
    /\ IF rep < len THEN rep' = len /\ pc' = "top" /\ ended' = TRUE
       ELSE pc' = "done" /\ UNCHANGED <<rep, ended>>
    /\ UNCHANGED <<min, cap, len, pos, depth, mlen, readany>>

Next == MatchChunk \/ Scan \/ PreRoll \/ RollFill \/ Read \/ Eof \/ UNCHANGED vars

(* ------------------------------ properties ------------------------------ *)
Indices == 0 <= rep /\ rep <= pos /\ pos <= len /\ len <= cap
MatchInsideBuffer == mlen > 0 => pos - mlen >= 0
NoReEmission == mlen > 0 => rep <= pos - mlen      \* a match chunk never covers reported bytes
NoFalseEof == pc = "fill" => len < cap
Safety == Indices /\ MatchInsideBuffer /\ NoReEmission /\ NoFalseEof

(* the inductive invariant *)
TypeOK == pc \in {"top", "fill", "eof", "done"}
IndInv ==
    /\ TypeOK
    /\ min >= 1 /\ cap > min
    /\ 0 <= rep /\ rep <= pos /\ pos <= len /\ len <= cap
    /\ 0 <= depth /\ depth <= min /\ 0 <= mlen /\ mlen <= depth
    \* the bytes the current state stands for are still in the buffer ...
    /\ depth <= pos
    \* ... and have not been reported yet
    /\ (~ended /\ mlen = 0) => rep <= pos - depth
    /\ mlen > 0 => rep <= pos - mlen
    /\ ended => mlen = 0
    /\ (pc = "fill" => len < cap /\ mlen = 0 /\ (~readany => pos = len))
    /\ (pc = "eof" => mlen = 0 /\ pos = len)

IndInit ==
    /\ min \in Int /\ cap \in Int /\ len \in Int /\ pos \in Int /\ rep \in Int
    /\ depth \in Int /\ mlen \in Int /\ ended \in BOOLEAN /\ readany \in BOOLEAN
    /\ pc \in {"top", "fill", "eof", "done"}
    /\ IndInv
=============================================================================
