SPECIFICATION Spec
INVARIANT Agree
VIEW View
CHECK_DEADLOCK FALSE
