------------------------------ MODULE ACShuffle ------------------------------
(***************************************************************************)
(* Compiler::shuffle (src/nfa/noncontiguous.rs) and util/remapper.rs:      *)
(* match states are swapped to the front (behind DEAD and FAIL), the two   *)
(* start states are swapped to just behind them, and afterwards every      *)
(* stored state id is rewritten through the Remapper, which resolves the   *)
(* chains of swaps.  Claims:                                               *)
(*   RemapCorrect  the final map sends every original id to the position   *)
(*                 where that state now lives (so every transition,        *)
(*                 failure link and start id still names the same state);  *)
(*   Layout        is_match / is_start by id comparison are exact:         *)
(*                 a position holds a match state iff 1 < p <= max_match_id*)
(*                 and the start ids hold the start states (C16's special- *)
(*                 state layout: DEAD, FAIL, MATCH..., START, START, rest).*)
(* States are named by their original index; slot[p] is the state stored   *)
(* at position p; one swap per step, then the remap loop in one step.      *)
(***************************************************************************)
EXTENDS Integers, Sequences, FiniteSets, TLC

CONSTANTS MaxStates

VARIABLES n,        \* number of states (0 = DEAD, 1 = FAIL, 2 = unanchored start, 3 = anchored start)
          isMatch,  \* original index -> BOOLEAN (both start states together when the empty pattern exists)
          slot,     \* position -> original index
          map,      \* Remapper.map: position index -> id
          pc, i, nextAvail,
          startU, startA, maxMatch
vars == <<n, isMatch, slot, map, pc, i, nextAvail, startU, startA, maxMatch>>

Swap(f, a, b) == [f EXCEPT ![a] = f[b], ![b] = f[a]]
DoSwap(a, b) ==       \* Remapper::swap
    IF a = b THEN UNCHANGED <<slot, map>>
    ELSE slot' = Swap(slot, a, b) /\ map' = Swap(map, a, b)

Init ==
    /\ n \in 4..MaxStates
    /\ \E M \in SUBSET (4..(n - 1)), sm \in BOOLEAN :
         isMatch = [x \in 0..(n - 1) |-> x \in M \/ (sm /\ x \in {2, 3})]
    /\ slot = [p \in 0..(n - 1) |-> p]
    /\ map = [p \in 0..(n - 1) |-> p]
    /\ pc = "scan" /\ i = 4 /\ nextAvail = 4
    /\ startU = 2 /\ startA = 3 /\ maxMatch = 0

(* for i in 4..states.len(): swap match states down to next_avail *)
Scan ==
    /\ pc = "scan"
    /\ IF i >= n THEN pc' = "starts" /\ UNCHANGED <<i, nextAvail, slot, map>>
       ELSE /\ i' = i + 1
            /\ IF isMatch[slot[i]]
               THEN DoSwap(i, nextAvail) /\ nextAvail' = nextAvail + 1
               ELSE UNCHANGED <<slot, map, nextAvail>>
            /\ UNCHANGED pc
    /\ UNCHANGED <<n, isMatch, startU, startA, maxMatch>>

StartA == /\ pc = "starts" /\ DoSwap(3, nextAvail - 1) /\ pc' = "startu"
          /\ UNCHANGED <<n, isMatch, i, nextAvail, startU, startA, maxMatch>>
StartU == /\ pc = "startu" /\ DoSwap(2, nextAvail - 2)
          /\ startU' = nextAvail - 2 /\ startA' = nextAvail - 1
          /\ maxMatch' = IF isMatch[3] THEN nextAvail - 1 ELSE nextAvail - 3
          /\ pc' = "remap"
          /\ UNCHANGED <<n, isMatch, i, nextAvail>>

(* Remapper::remap: follow each chain of swaps until it returns to the start *)
RECURSIVE Chase(_, _, _)
Chase(old, cur, new) == LET id == old[new] IN IF id = cur THEN new ELSE Chase(old, cur, id)
Remap ==
    /\ pc = "remap"
    /\ map' = [p \in 0..(n - 1) |-> IF map[p] = p THEN p ELSE Chase(map, p, map[p])]
    /\ pc' = "done"
    /\ UNCHANGED <<n, isMatch, slot, i, nextAvail, startU, startA, maxMatch>>

Next == Scan \/ StartA \/ StartU \/ Remap
Spec == Init /\ [][Next]_vars

RemapCorrect == pc = "done" => \A x \in 0..(n - 1) : slot[map[x]] = x
Layout ==
    pc = "done" =>
        /\ slot[0] = 0 /\ slot[1] = 1
        /\ slot[startU] = 2 /\ slot[startA] = 3 /\ startA = startU + 1
        /\ \A p \in 2..(n - 1) : isMatch[slot[p]] <=> p <= maxMatch
        \* start states directly follow the (non-start) match states
        /\ \A p \in 2..(n - 1) : (isMatch[slot[p]] /\ slot[p] \notin {2, 3}) => p < startU
SwapsArePermutations == {slot[p] : p \in 0..(n - 1)} = 0..(n - 1)

=============================================================================
