-------------------------- MODULE ACPackedBuilder --------------------------
(***************************************************************************)
(* packed::Builder (src/packed/api.rs): add / extend / build as a state    *)
(* machine over (inert, patterns).  The builder gives up for good          *)
(* ("inert") when a pattern is empty or when more than Limit patterns are  *)
(* added; `build` returns a searcher only when it is not inert and holds   *)
(* at least one pattern.  Claim (what the prefilter layer of the crate     *)
(* relies on, C20 "pattern identifiers ... are the 0-based positions of    *)
(* the patterns in the input"): a searcher that IS built holds exactly the *)
(* patterns that were added, in the order they were added - so the id it   *)
(* reports for a pattern is the pattern's position in the input.           *)
(* Patterns are abstracted to "empty" / "nonempty" plus their position.    *)
(***************************************************************************)
EXTENDS Integers, Sequences, TLC

CONSTANTS Limit,     \* PATTERN_LIMIT (128 in the code)
          MaxAdds    \* how many add() calls are explored

VARIABLES inert, held,   \* the builder: gave up / positions (in the input) of the patterns it holds
          added,         \* history: how many patterns were offered so far
          sawEmpty       \* history: an empty pattern was offered
vars == <<inert, held, added, sawEmpty>>

Init == inert = FALSE /\ held = <<>> /\ added = 0 /\ sawEmpty = FALSE

(* Builder::add *)
Add(isEmpty) ==
    /\ added < MaxAdds
    /\ added' = added + 1
    /\ sawEmpty' = (sawEmpty \/ isEmpty)
    /\ IF inert THEN UNCHANGED <<inert, held>>
       ELSE IF Len(held) >= Limit THEN inert' = TRUE /\ held' = <<>>
       ELSE IF isEmpty THEN inert' = TRUE /\ held' = <<>>
       ELSE held' = Append(held, added) /\ UNCHANGED inert      \* position = 0-based index in the input

Next == \E e \in BOOLEAN : Add(e)
Spec == Init /\ [][Next]_vars

(* Builder::build *)
Builds == ~inert /\ held # <<>>

(* a built searcher holds every pattern offered, at its input position *)
IdsArePositions ==
    Builds => /\ Len(held) = added
              /\ \A k \in 1..Len(held) : held[k] = k - 1
(* and it is never built from a collection the packed searchers do not support *)
NeverBuiltWhenUnsupported ==
    Builds => ~sawEmpty /\ added <= Limit
=============================================================================
