------------------------------- MODULE ACContig -------------------------------
(***************************************************************************)
(* nfa::contiguous::Builder::build_from_noncontiguous (src/nfa/            *)
(* contiguous.rs): the whole automaton as ONE sequence of words.           *)
(*   pass 1  every state of the noncontiguous NFA except FAIL is encoded   *)
(*           (ACRepr!Encode) at the end of `repr`; its NEW id is the       *)
(*           offset it starts at; index_to_state_id[old] = new             *)
(*   pass 2  State::remap rewrites, in place, the failure id and every     *)
(*           transition target of every state through index_to_state_id    *)
(*   special ids are taken through the same table                          *)
(* Claims: new ids keep the order of old ids (so the id-comparison         *)
(* predicates is_special / is_match / is_start survive), DEAD stays 0 and  *)
(* no state starts at offset 1 = FAIL, states do not overlap, and decoding *)
(* at a new id (ACRepr!Lookup etc.) gives the old state's transitions      *)
(* with every target translated.  The shape of each state (how many        *)
(* transitions, dense or not, how many matches) is arbitrary; thresholds   *)
(* are scaled down as in ACRepr.                                           *)
(***************************************************************************)
EXTENDS ACRepr

CONSTANTS N        \* number of noncontiguous states: 0 DEAD, 1 FAIL, 2.. others

VARIABLES olds,    \* old id -> abstract state [trans, fail, matches, dense]
          repr,    \* the word sequence built so far
          tbl,     \* index_to_state_id (old id -> new id), filled by pass 1
          pc, k    \* "write" | "remap" | "done", next old id to handle
cvars == <<olds, repr, tbl, pc, k, st, words>>

Olds == 0..(N - 1)
Targets == Olds \ {FAIL}

(* A state's shape is chosen freely; its targets are spread over the other states *)
MkTrans(s, cnt) == [c \in 0..(cnt - 1) |-> LET x == (s + c) % N IN IF x = FAIL THEN 0 ELSE x]
MkState(s, cnt, dn, nm) ==
    [trans |-> MkTrans(s, cnt), fail |-> IF s % 2 = 0 THEN 0 ELSE 2,
     matches |-> [x \in 1..nm |-> (s + x) % 3], dense |-> dn]

Free == Olds \ {0, FAIL}
CInit ==
    /\ \E p \in [Free -> (0..A) \X BOOLEAN \X (0..MaxMatches)], dd \in BOOLEAN :
         olds = [s \in Olds |->
                   IF s \in Free THEN MkState(s, p[s][1], p[s][2], p[s][3])
                   \* the DEAD state carries a transition for every class (add_dead_state_loop)
                   \* and no match; FAIL is never encoded
                   ELSE [trans |-> [c \in 0..(A - 1) |-> 0], fail |-> 0, matches |-> <<>>, dense |-> dd]]
    /\ repr = <<>> /\ tbl = [s \in Olds |-> 0] /\ pc = "write" /\ k = 0
    /\ st = [trans |-> <<>>, fail |-> 0, matches |-> <<>>, dense |-> FALSE] /\ words = <<>>   \* ACRepr's variables: unused

(* pass 1 *)
Write ==
    /\ pc = "write"
    /\ IF k >= N THEN pc' = "remap" /\ k' = 0 /\ UNCHANGED <<repr, tbl>>
       ELSE /\ k' = k + 1 /\ UNCHANGED pc
            /\ IF k = FAIL THEN tbl' = [tbl EXCEPT ![k] = FAIL] /\ UNCHANGED repr
               ELSE /\ tbl' = [tbl EXCEPT ![k] = Len(repr)]
                    /\ repr' = repr \o Encode(olds[k])
    /\ UNCHANGED <<olds, st, words>>

(* State::remap on the words of the state that starts at offset o *)
SliceFrom(o) == SubSeq(repr, o + 1, Len(repr))
RemapWords(w) ==
    LET kind == w[1].k IN
    [x \in 1..Len(w) |->
        IF x = 2 THEN tbl[w[2]]                                          \* failure id
        ELSE IF kind = KindDense /\ x >= 3 /\ x <= 2 + A THEN tbl[w[x]]
        ELSE IF kind = KindOne /\ x = 3 THEN tbl[w[3]]
        ELSE IF kind # KindDense /\ kind # KindOne
                /\ x > 2 + CeilDiv(kind, ChunkSize) /\ x <= 2 + CeilDiv(kind, ChunkSize) + kind
             THEN tbl[w[x]]
        ELSE w[x]]

Remap ==
    /\ pc = "remap"
    /\ IF k >= N THEN pc' = "done" /\ UNCHANGED <<repr, k>>
       ELSE /\ k' = k + 1 /\ UNCHANGED pc
            /\ IF k = FAIL THEN UNCHANGED repr
               ELSE LET o == tbl[k]
                        len == Len(Encode(olds[k]))          \* = StateLen, see ACRepr!LenOK
                        w == SubSeq(repr, o + 1, o + len) IN
                    repr' = SubSeq(repr, 1, o) \o RemapWords(w) \o SubSeq(repr, o + len + 1, Len(repr))
    /\ UNCHANGED <<olds, tbl, st, words>>

CNext == Write \/ Remap
CSpec == CInit /\ [][CNext]_cvars

(* ------------------------------ properties ------------------------------ *)
Real == Olds \ {FAIL}

(* new ids are offsets in the order of the old ids: id comparisons survive *)
OrderKept ==
    pc # "write" => \A a, b \in Real : a < b => tbl[a] < tbl[b]
(* DEAD is 0, FAIL is 1 and no state starts there *)
SentinelsKept ==
    pc # "write" => /\ tbl[0] = 0 /\ tbl[FAIL] = FAIL
                    /\ \A a \in Real : tbl[a] # FAIL
(* consecutive, non-overlapping states that fill repr exactly *)
Tiling ==
    pc # "write" =>
        /\ \A a \in Real : LET nxt == {b \in Real : b > a} IN
              tbl[a] + Len(Encode(olds[a])) = (IF nxt = {} THEN Len(repr)
                                                ELSE tbl[CHOOSE b \in nxt : \A c \in nxt : b <= c])
(* decoding at the new id gives the old state with every id translated *)
DecodeOK ==
    pc = "done" =>
      \A a \in Real :
        LET w == SliceFrom(tbl[a])  s == olds[a] IN
        /\ w[2] = tbl[s.fail]
        /\ \A c \in 0..(A - 1) :
              Lookup(w, c) = (IF c \in DOMAIN s.trans THEN tbl[s.trans[c]] ELSE FAIL)
        /\ s.matches # <<>> =>
              /\ MatchLenOf(w) = Len(s.matches)
              /\ \A x \in 1..Len(s.matches) : MatchPatternOf(w, x) = s.matches[x]
        /\ StateLen(w, s.matches # <<>>) = Len(Encode(s))
(* the length the decoder computes from the words alone is the length that  *)
(* was written (what lets State::remap and the Debug walk find the next     *)
(* state)                                                                   *)
WalkOK ==
    pc # "write" =>
      \A a \in Real : StateLen(SliceFrom(tbl[a]), olds[a].matches # <<>>) = Len(Encode(olds[a]))
=============================================================================
