// B1: dump the reachable transition graph of the REAL automata through the
// public `Automaton` API. TLC (spec/Prod.tla) explores the product of each
// dumped graph with the specification automaton.
use crate::common::*;
use crate::gen;
use crate::with_aut;
use aho_corasick::automaton::{Automaton, StateID};
use serde::Serialize;
use std::collections::HashMap;

#[derive(Serialize)]
pub struct StateRow {
    d: bool,
    sp: bool,
    ms: bool,
    st: bool,
    /// match list, pattern ids 1-based
    m: Vec<usize>,
    #[serde(rename = "rowU")]
    row_u: Vec<usize>,
    /// empty when identical to rowU
    #[serde(rename = "rowA")]
    row_a: Vec<usize>,
    same: bool,
}

#[derive(Serialize)]
pub struct Dump {
    pub ctx: Ctx,
    /// what start kinds this representation is expected to offer
    pub esk: &'static str,
    pub err: String,
    pub bytes: Vec<u8>,
    #[serde(rename = "startU")]
    pub start_u: usize,
    #[serde(rename = "startA")]
    pub start_a: usize,
    pub states: Vec<StateRow>,
    /// metadata as reported by the automaton (C20)
    pub plens: Vec<usize>,
    pub npat: usize,
    pub minlen: i64,
    pub maxlen: usize,
    pub mkrep: String,
}

fn relevant_bytes(pats: &Pats, ci: bool) -> Vec<bool> {
    let mut rel = vec![false; 256];
    for p in pats {
        for &b in p {
            rel[b as usize] = true;
            if ci {
                rel[b.to_ascii_lowercase() as usize] = true;
                rel[b.to_ascii_uppercase() as usize] = true;
            }
        }
    }
    if ci {
        // neighbours of the letter ranges: must NOT be folded
        for b in [b'@', b'[', b'`', b'{'] {
            rel[b as usize] = true;
        }
    }
    rel
}

fn walk<A: Automaton>(a: &A, c: &Ctx) -> Dump {
    // a failure walk that never ends must end up as data (a panic recorded for this automaton)
    let d = walk_imp(a, c);
    aho_corasick::verif::reset_counters(u64::MAX);
    d
}

fn walk_imp<A: Automaton>(a: &A, c: &Ctx) -> Dump {
    let mut rel = relevant_bytes(&c.pats, c.ci);
    'again: loop {
        let mut bytes: Vec<u8> = (0..=255u8).filter(|&b| rel[b as usize]).collect();
        let others: Vec<u8> = (0..=255u8).filter(|&b| !rel[b as usize]).collect();
        if let Some(&rep) = others.first() {
            bytes.push(rep);
        }
        let mut ids: HashMap<StateID, usize> = HashMap::new();
        let mut order: Vec<StateID> = vec![];
        let mut intern = |sid: StateID, order: &mut Vec<StateID>| -> usize {
            *ids.entry(sid).or_insert_with(|| {
                order.push(sid);
                order.len()
            })
        };
        let su = match a.start_state(aho_corasick::Anchored::No) {
            Ok(s) => intern(s, &mut order),
            Err(_) => 0,
        };
        let sa = match a.start_state(aho_corasick::Anchored::Yes) {
            Ok(s) => intern(s, &mut order),
            Err(_) => 0,
        };
        let mut states: Vec<StateRow> = vec![];
        let mut i = 0;
        while i < order.len() {
            let sid = order[i];
            i += 1;
            // (per state: 2 x 256 transitions, each walking at most the longest pattern's length)
            aho_corasick::verif::reset_counters(1 << 20);
            let ms = a.is_match(sid);
            let mut m = vec![];
            if ms {
                for j in 0..a.match_len(sid) {
                    m.push(a.match_pattern(sid, j).as_usize() + 1);
                }
            }
            let mut row_u = vec![];
            let mut row_a = vec![];
            for &b in &bytes {
                let tu = a.next_state(aho_corasick::Anchored::No, sid, b);
                let ta = a.next_state(aho_corasick::Anchored::Yes, sid, b);
                row_u.push(intern(tu, &mut order));
                row_a.push(intern(ta, &mut order));
            }
            // compression check: every byte that is not listed must behave
            // like the representative; otherwise list it and start over.
            if let Some(&rep) = others.first() {
                let ru = a.next_state(aho_corasick::Anchored::No, sid, rep);
                let ra = a.next_state(aho_corasick::Anchored::Yes, sid, rep);
                for &b in &others {
                    if a.next_state(aho_corasick::Anchored::No, sid, b) != ru
                        || a.next_state(aho_corasick::Anchored::Yes, sid, b) != ra
                    {
                        rel[b as usize] = true;
                        rel[rep as usize] = true;
                        continue 'again;
                    }
                }
            }
            let same = row_u == row_a;
            states.push(StateRow {
                d: a.is_dead(sid),
                sp: a.is_special(sid),
                ms,
                st: a.is_start(sid),
                m,
                row_u,
                row_a: if same { vec![] } else { row_a },
                same,
            });
        }
        let npat = a.patterns_len();
        let mut plens = vec![];
        for k in 0..npat {
            plens.push(a.pattern_len(aho_corasick::PatternID::new(k).unwrap()));
        }
        return Dump {
            ctx: c.clone(),
            esk: c.effective_sk(),
            err: String::new(),
            bytes,
            start_u: su,
            start_a: sa,
            states,
            plens,
            npat,
            minlen: if npat == 0 { -1 } else { a.min_pattern_len() as i64 },
            maxlen: a.max_pattern_len(),
            mkrep: format!("{:?}", a.match_kind()),
        };
    }
}

fn failed(c: &Ctx, err: String) -> Dump {
    Dump {
        ctx: c.clone(),
        esk: c.effective_sk(),
        err,
        bytes: vec![],
        start_u: 0,
        start_a: 0,
        states: vec![],
        plens: vec![],
        npat: 0,
        minlen: 0,
        maxlen: 0,
        mkrep: String::new(),
    }
}

pub fn dump_ctx(c: &Ctx) -> Dump {
    set_case(&serde_json::to_string(c).unwrap_or_default());
    let r = guarded(|| match build_low(c) {
        Err(e) => failed(c, format!("build: {}", e)),
        Ok(aut) => with_aut!(&aut, a => walk(a, c)),
    });
    match r {
        Ok(d) => d,
        Err(p) => failed(c, format!("panic: {}", p)),
    }
}

/// The representation/option variants explored for one (pats, mk, ci).
pub fn variants(pats: &Pats, mk: &'static str, ci: bool, full: bool) -> Vec<Ctx> {
    let mut v = vec![];
    let base = |repr: &'static str| {
        let mut c = Ctx::new(pats, mk, repr);
        c.ci = ci;
        c
    };
    let nc_dd: &[i64] = if full { &[-1, 0, 1, 3] } else { &[-1, 0] };
    for &dd in nc_dd {
        let mut c = base("nc");
        c.dd = dd;
        v.push(c);
    }
    let c_opts: &[(i64, bool)] = if full {
        &[(-1, true), (0, true), (0, false), (1, true), (2, false), (100, true)]
    } else {
        &[(-1, true), (0, false), (100, true)]
    };
    for &(dd, bc) in c_opts {
        let mut c = base("c");
        c.dd = dd;
        c.bc = bc;
        v.push(c);
    }
    for sk in SKS {
        for bc in [true, false] {
            if !full && !bc && sk != "both" {
                continue;
            }
            let mut c = base("dfa");
            c.sk = sk;
            c.bc = bc;
            v.push(c);
        }
    }
    // with a prefilter the start states become special
    for repr in ["nc", "c", "dfa"] {
        let mut c = base(repr);
        c.pre = true;
        v.push(c);
    }
    v
}

pub struct DumpStats {
    pub automata: usize,
    pub states: usize,
    pub lists: usize,
}

/// families: "f23" | "f33" | "ci" | "rand:<n>:<maxpats>:<maxlen>" | "shapes"
pub fn run(out_prefix: &str, shards: usize, families: &[String], seed: u64, full: bool, mks: &[&'static str]) -> DumpStats {
    let mut out = Out::create(out_prefix, shards);
    let mut stats = DumpStats { automata: 0, states: 0, lists: 0 };
    let mut n = 0usize;
    let mut emit = |out: &mut Out, stats: &mut DumpStats, pats: &Pats, ci: bool| {
        stats.lists += 1;
        for &mk in mks {
            for c in variants(pats, mk, ci, full) {
                let d = dump_ctx(&c);
                stats.automata += 1;
                stats.states += d.states.len();
                out.put(n, &d);
                n += 1;
            }
        }
    };
    for fam in families {
        let parts: Vec<&str> = fam.split(':').collect();
        match parts[0] {
            "f22" => {
                for p in gen::family(b"ab", 2, 2) {
                    emit(&mut out, &mut stats, &p, false);
                }
            }
            "f23" => {
                for p in gen::family(b"ab", 2, 3) {
                    emit(&mut out, &mut stats, &p, false);
                }
            }
            "f32" => {
                for p in gen::family(b"ab", 3, 2) {
                    emit(&mut out, &mut stats, &p, false);
                }
            }
            "f33" => {
                for p in gen::family(b"ab", 3, 3) {
                    emit(&mut out, &mut stats, &p, false);
                }
            }
            // alphabet sizes around powers of two (the DFA's stride is the next power of two of
            // the number of byte classes): m single-byte patterns 0..m-1 give m+1 classes
            "classes" | "classesbig" => {
                let ms: &[usize] = if parts[0] == "classes" { &[1, 2, 3, 4, 5, 7, 8, 9, 15, 16, 17, 31, 32, 33] } else { &[63, 64, 65, 127, 128, 129, 254, 255] };
                for &m in ms {
                    let mut p: Pats = (0..m).map(|b| vec![b as u8]).collect();
                    p.push(vec![0, 1]);
                    emit(&mut out, &mut stats, &p, false);
                }
            }
            // three or four copies of one pattern together with its suffixes / the empty pattern,
            // in every position (match lists with several own entries AND inherited ones)
            "dups" => {
                for p in gen::all_strings(b"ab", 2).into_iter().filter(|p| !p.is_empty()) {
                    for k in [3usize, 4] {
                        let mut sufs: Vec<Vec<u8>> = (1..p.len()).map(|i| p[i..].to_vec()).collect();
                        sufs.push(vec![]);
                        for q in &sufs {
                            for pos in [0usize, 1, k] {
                                let mut l: Pats = vec![p.clone(); k];
                                l.insert(pos.min(l.len()), q.clone());
                                emit(&mut out, &mut stats, &l, false);
                                let mut l2 = l.clone();
                                l2.push(q.clone());
                                emit(&mut out, &mut stats, &l2, false);
                            }
                        }
                    }
                }
            }
            // suffix chains: a deep state whose failure target is a non-matching state that
            // itself inherits a match through a second failure hop, with the first bytes of
            // the branches in every relative order (the breadth-first order of the failure
            // pass matters), every order of the patterns
            "chains" => {
                for perm in [[0usize, 1, 2], [2, 1, 0], [1, 0, 2], [0, 2, 1], [2, 0, 1], [1, 2, 0]] {
                    let letters = [b'a', b'b', b'c'];
                    let (x, y, z) = (letters[perm[0]], letters[perm[1]], letters[perm[2]]);
                    for tail in [0usize, 1, 5] {
                        // w = x y z (+ y): patterns  w·d,  w[1..]·e,  w[2..]  (and a fourth hop);
                        // tail 5: w has 8 bytes, so the failure hops leave states deeper than 6 and
                        // (depending on the order) lead to states created later, with larger ids
                        let mut w = vec![x, y, z];
                        if tail == 1 { w.push(y); }
                        if tail == 5 { w.extend([y, x, z, z, y]); }
                        let p1: Vec<u8> = w.iter().copied().chain([b'd']).collect();
                        let p2: Vec<u8> = w[1..].iter().copied().chain([b'e']).collect();
                        let p3: Vec<u8> = w[2..].to_vec();
                        let p4: Vec<u8> = w[w.len() - 1..].to_vec();
                        for order in [[0usize, 1, 2, 3], [3, 2, 1, 0], [1, 3, 0, 2], [2, 0, 3, 1]] {
                            let all = [&p1, &p2, &p3, &p4];
                            let l: Pats = order.iter().map(|&k| all[k].clone()).collect();
                            emit(&mut out, &mut stats, &l, false);
                            let l3: Pats = order.iter().filter(|&&k| k != 3).map(|&k| all[k].clone()).collect();
                            emit(&mut out, &mut stats, &l3, false);
                        }
                    }
                }
            }
            // many patterns (> 64, > 128): suffix-related patterns and duplicates whose ids are 64 and
            // 128 apart, so that one state lists ids that coincide modulo 64 / 128 / 256
            "wide" => {
                for n in [66usize, 130, 258] {
                    let mut l: Pats = (0..n).map(|i| vec![b'x', b'a' + (i % 26) as u8, b'a' + ((i / 26) % 26) as u8, b'q']).collect();
                    l[0] = b"b".to_vec();
                    l[1] = b"dup".to_vec();
                    if n > 64 { l[64] = b"ab".to_vec(); l[65] = b"dup".to_vec(); }
                    if n > 128 { l[128] = b"cab".to_vec(); l[129] = b"dup".to_vec(); }
                    if n > 256 { l[256] = b"dcab".to_vec(); l[257] = b"dup".to_vec(); }
                    emit(&mut out, &mut stats, &l, false);
                }
            }
            // small exhaustive families over bytes at the edges of the byte range
            "edge" => {
                for alpha in [&[0x01u8, 0x02][..], &[0xFE, 0xFF][..], &[0x00, 0x7F][..], &[0x80, 0x01][..]] {
                    for p in gen::family(alpha, 2, 2) {
                        emit(&mut out, &mut stats, &p, false);
                    }
                }
            }
            "ci" => {
                for p in gen::family(b"aAb", 2, 2) {
                    emit(&mut out, &mut stats, &p, true);
                }
            }
            "ci3" => {
                for p in gen::family(b"aA@", 3, 2) {
                    emit(&mut out, &mut stats, &p, true);
                }
            }
            "rand" => {
                let cnt: usize = parts[1].parse().unwrap();
                let maxn: usize = parts[2].parse().unwrap();
                let maxl: usize = parts[3].parse().unwrap();
                let mut r = gen::rng(seed, 0xD0_0001);
                for i in 0..cnt {
                    let p = gen::random_pats(&mut r, maxn, maxl);
                    emit(&mut out, &mut stats, &p, i % 3 == 0);
                }
            }
            "shapes" => {
                for p in shape_lists() {
                    emit(&mut out, &mut stats, &p, false);
                }
            }
            "shapesbig" => {
                for p in big_shape_lists() {
                    emit(&mut out, &mut stats, &p, false);
                }
            }
            other => panic!("unknown family {}", other),
        }
    }
    out.finish();
    stats
}

/// pattern lists that stress the state encodings: states with 1, 3, 4, 5,
/// 127, 128, 255, 256 outgoing edges; many byte classes; deep chains.
pub fn shape_lists() -> Vec<Pats> {
    let mut v: Vec<Pats> = vec![];
    for fan in [3usize, 4, 5, 9] {
        // root fan-out
        v.push((0..fan).map(|b| vec![b'a' + b as u8, b'x']).collect());
    }
    for fan in [1usize, 3, 4, 5, 8, 9, 13] {
        // fan-out below one shared prefix byte (non-root state)
        v.push((0..fan).map(|b| vec![b'q', b'a' + b as u8]).collect());
    }
    // deep single chain (one-transition states) with a suffix family
    let chain: Vec<u8> = (0..24u8).map(|i| b'a' + (i % 5)).collect();
    v.push(vec![chain.clone()]);
    v.push((0..chain.len()).step_by(3).map(|i| chain[i..].to_vec()).collect());
    // a^k b family
    v.push((1..8).map(|k| { let mut p = vec![b'a'; k]; p.push(b'b'); p }).collect());
    v
}

/// big fan-outs: 127/128 (sparse transition count limits), 255/256 (all
/// bytes), all single bytes (256 byte classes)
pub fn big_shape_lists() -> Vec<Pats> {
    let mut v: Vec<Pats> = vec![];
    for fan in [128usize, 256] {
        v.push((0..fan).map(|b| vec![b as u8, b'x']).collect());
    }
    for fan in [127usize, 255] {
        v.push((0..fan).map(|b| vec![b'q', b as u8]).collect());
    }
    v.push((0..=255u8).map(|b| vec![b]).collect());
    v
}
